// mkoverlay generates the build overlay that turns the *current working tree*
// of /repo into the simulated build: it injects the simulator packages as
// virtual packages of the maddy module, injects export shims next to existing
// packages, rewrites the "os" import of the spool files to the simulated file
// system, inserts scheduling points before every synchronisation operation of
// the listed files, and makes map iteration deterministic in listed packages.
//
// Nothing is written under /repo. Exit status 2 = cannot generate (harness
// trouble), never a verdict.
package main

import (
	"bytes"
	"encoding/json"
	"flag"
	"fmt"
	"go/ast"
	"go/importer"
	"go/parser"
	"go/printer"
	"go/token"
	"go/types"
	"io"
	"os"
	"os/exec"
	"path/filepath"
	"sort"
	"strconv"
	"strings"
)

const simrtPath = "github.com/foxcpp/maddy/internal/verifsim/simrt"
const simfsPath = "github.com/foxcpp/maddy/internal/verifsim/simfs"

type Config struct {
	OsRewrite  []string          `json:"os_rewrite"`
	Instrument []string          `json:"instrument"`
	MapRange   []string          `json:"maprange"` // package dirs (relative)
	Seams      []Seam            `json:"seams"`
	Exports    map[string]string `json:"exports"` // verif-relative source -> repo-relative dest
}

// Seam is a textual one-line replacement that must match exactly once.
type Seam struct {
	File string `json:"file"`
	Old  string `json:"old"`
	New  string `json:"new"`
	// AddImport: import path to add (optional), with optional name "name path".
	AddImport string `json:"add_import"`
}

func die(format string, a ...interface{}) {
	fmt.Fprintf(os.Stderr, "HARNESS-ERROR mkoverlay: "+format+"\n", a...)
	os.Exit(2)
}

func main() {
	repo := flag.String("repo", "/repo", "repository working tree")
	verif := flag.String("verif", "/verif", "verification tree")
	out := flag.String("out", "/verif/.build", "output directory")
	gocmd := flag.String("go", "go1.26.8", "go command for export data")
	flag.Parse()

	var cfg Config
	b, err := os.ReadFile(filepath.Join(*verif, "tools/mkoverlay/config.json"))
	if err != nil {
		die("config: %v", err)
	}
	if err := json.Unmarshal(b, &cfg); err != nil {
		die("config: %v", err)
	}

	if _, err := os.Stat(filepath.Join(*repo, "internal/verifsim")); err == nil {
		die("%s/internal/verifsim exists in the repository; refusing to overlay it", *repo)
	}

	srcOut := filepath.Join(*out, "src")
	os.RemoveAll(srcOut)
	if err := os.MkdirAll(srcOut, 0o755); err != nil {
		die("%v", err)
	}
	replace := map[string]string{}

	// 1. inject simulator packages
	simRoot := filepath.Join(*verif, "sim")
	filepath.Walk(simRoot, func(p string, fi os.FileInfo, err error) error {
		if err != nil || fi.IsDir() || !strings.HasSuffix(p, ".go") {
			return nil
		}
		rel, _ := filepath.Rel(simRoot, p)
		if strings.HasPrefix(rel, "exports/") {
			return nil
		}
		replace[filepath.Join(*repo, "internal/verifsim", rel)] = p
		return nil
	})
	// 2. export shims
	for src, dst := range cfg.Exports {
		sp := filepath.Join(*verif, src)
		if _, err := os.Stat(sp); err != nil {
			die("export shim %s: %v", src, err)
		}
		dp := filepath.Join(*repo, dst)
		if _, err := os.Stat(dp); err == nil {
			die("export shim destination %s exists in the repository", dst)
		}
		if _, err := os.Stat(filepath.Dir(dp)); err != nil {
			die("export shim destination directory for %s is missing: %v", dst, err)
		}
		replace[dp] = sp
	}

	// files to rewrite: path -> set of transforms
	type job struct{ osRw, instr, maprange bool }
	jobs := map[string]*job{}
	get := func(rel string) *job {
		j := jobs[rel]
		if j == nil {
			j = &job{}
			jobs[rel] = j
		}
		return j
	}
	expand := func(pats []string) []string {
		var out []string
		for _, pat := range pats {
			ms, _ := filepath.Glob(filepath.Join(*repo, pat))
			if len(ms) == 0 {
				die("anchor file %s not found in %s", pat, *repo)
			}
			for _, m := range ms {
				if strings.HasSuffix(m, "_test.go") {
					continue
				}
				rel, _ := filepath.Rel(*repo, m)
				out = append(out, rel)
			}
		}
		return out
	}
	for _, f := range expand(cfg.OsRewrite) {
		get(f).osRw = true
	}
	for _, f := range expand(cfg.Instrument) {
		get(f).instr = true
	}
	for _, d := range cfg.MapRange {
		ms, _ := filepath.Glob(filepath.Join(*repo, d, "*.go"))
		if len(ms) == 0 {
			die("maprange package %s has no files", d)
		}
		for _, m := range ms {
			if strings.HasSuffix(m, "_test.go") {
				continue
			}
			rel, _ := filepath.Rel(*repo, m)
			get(rel).maprange = true
		}
	}
	seamsByFile := map[string][]Seam{}
	for _, s := range cfg.Seams {
		seamsByFile[s.File] = append(seamsByFile[s.File], s)
		get(s.File)
	}

	// group by package dir for type checking
	byDir := map[string][]string{}
	for rel := range jobs {
		byDir[filepath.Dir(rel)] = append(byDir[filepath.Dir(rel)], rel)
	}
	dirs := make([]string, 0, len(byDir))
	for d := range byDir {
		dirs = append(dirs, d)
	}
	sort.Strings(dirs)

	needTypes := false
	for _, j := range jobs {
		if j.instr || j.maprange {
			needTypes = true
		}
	}
	var exports map[string]string
	if needTypes {
		exports = loadExports(*repo, *gocmd, dirs)
	}

	stats := map[string]int{}
	for _, d := range dirs {
		fset := token.NewFileSet()
		pkgFiles := listGoFiles(*repo, *gocmd, d)
		var files []*ast.File
		fileByRel := map[string]*ast.File{}
		for _, name := range pkgFiles {
			p := filepath.Join(*repo, d, name)
			f, err := parser.ParseFile(fset, p, nil, parser.ParseComments)
			if err != nil {
				die("parse %s: %v", p, err)
			}
			files = append(files, f)
			fileByRel[filepath.Join(d, name)] = f
		}
		info := &types.Info{Types: map[ast.Expr]types.TypeAndValue{}, Uses: map[*ast.Ident]types.Object{}, Selections: map[*ast.SelectorExpr]*types.Selection{}}
		if needTypes {
			conf := types.Config{
				Importer: importer.ForCompiler(fset, "gc", func(path string) (io.ReadCloser, error) {
					e, ok := exports[path]
					if !ok || e == "" {
						return nil, fmt.Errorf("no export data for %s", path)
					}
					return os.Open(e)
				}),
				Error: func(err error) { stats["type_errors"]++ },
			}
			conf.Check(d, fset, files, info)
		}
		for _, rel := range byDir[d] {
			f := fileByRel[rel]
			if f == nil {
				die("file %s is not part of its package under the current build constraints", rel)
			}
			j := jobs[rel]
			rw := &rewriter{fset: fset, info: info, file: filepath.Base(rel), stats: stats}
			if j.osRw {
				if !rewriteImport(f, "os", simfsPath, "os") {
					// the file no longer imports os: nothing to shim, not an error
					stats["os_import_absent"]++
				}
			}
			if j.maprange {
				rw.mapRange(f)
			}
			if j.instr {
				rw.instrument(f)
			}
			if rw.usedSimrt {
				addImport(f, "simrt", simrtPath)
			}
			var buf bytes.Buffer
			if err := printer.Fprint(&buf, fset, f); err != nil {
				die("print %s: %v", rel, err)
			}
			src := buf.String()
			for _, s := range seamsByFile[rel] {
				if strings.Count(src, s.Old) != 1 {
					die("seam anchor %q occurs %d times in %s (need exactly 1)", s.Old, strings.Count(src, s.Old), rel)
				}
				src = strings.Replace(src, s.Old, s.New, 1)
				if s.AddImport != "" {
					parts := strings.Fields(s.AddImport)
					name, path := "", parts[len(parts)-1]
					if len(parts) == 2 {
						name = parts[0]
					}
					src = addImportText(src, name, path)
				}
			}
			// re-parse to make sure the output is syntactically valid
			if _, err := parser.ParseFile(token.NewFileSet(), rel, src, 0); err != nil {
				die("rewritten %s does not parse: %v", rel, err)
			}
			op := filepath.Join(srcOut, rel)
			os.MkdirAll(filepath.Dir(op), 0o755)
			if err := os.WriteFile(op, []byte(src), 0o644); err != nil {
				die("%v", err)
			}
			replace[filepath.Join(*repo, rel)] = op
		}
	}

	ov, _ := json.MarshalIndent(map[string]interface{}{"Replace": replace}, "", " ")
	if err := os.WriteFile(filepath.Join(*out, "overlay.json"), ov, 0o644); err != nil {
		die("%v", err)
	}
	st, _ := json.Marshal(stats)
	os.WriteFile(filepath.Join(*out, "overlay_stats.json"), st, 0o644)
	fmt.Printf("mkoverlay: %d files replaced/injected, stats %s\n", len(replace), st)
}

func goEnv() []string {
	env := os.Environ()
	env = append(env, "GOFLAGS=-mod=mod", "GOPROXY=off", "GOSUMDB=off", "GOTOOLCHAIN=local")
	return env
}

func listGoFiles(repo, gocmd, dir string) []string {
	cmd := exec.Command(gocmd, "list", "-json=GoFiles,CgoFiles", "./"+dir)
	cmd.Dir = repo
	cmd.Env = goEnv()
	cmd.Stderr = os.Stderr
	outb, err := cmd.Output()
	if err != nil {
		die("go list ./%s: %v", dir, err)
	}
	var r struct{ GoFiles, CgoFiles []string }
	if err := json.Unmarshal(outb, &r); err != nil {
		die("go list output: %v", err)
	}
	return append(r.GoFiles, r.CgoFiles...)
}

func loadExports(repo, gocmd string, dirs []string) map[string]string {
	args := []string{"list", "-export", "-deps", "-json=ImportPath,Export"}
	for _, d := range dirs {
		args = append(args, "./"+d)
	}
	cmd := exec.Command(gocmd, args...)
	cmd.Dir = repo
	cmd.Env = goEnv()
	cmd.Stderr = os.Stderr
	outb, err := cmd.Output()
	if err != nil {
		die("go list -export failed (does the tree build?): %v", err)
	}
	res := map[string]string{}
	dec := json.NewDecoder(bytes.NewReader(outb))
	for dec.More() {
		var r struct{ ImportPath, Export string }
		if err := dec.Decode(&r); err != nil {
			die("go list output: %v", err)
		}
		res[r.ImportPath] = r.Export
	}
	return res
}

func rewriteImport(f *ast.File, old, newPath, name string) bool {
	for _, im := range f.Imports {
		p, _ := strconv.Unquote(im.Path.Value)
		if p == old {
			im.Path.Value = strconv.Quote(newPath)
			im.Name = ast.NewIdent(name)
			return true
		}
	}
	return false
}

func addImport(f *ast.File, name, path string) {
	for _, im := range f.Imports {
		p, _ := strconv.Unquote(im.Path.Value)
		if p == path {
			return
		}
	}
	spec := &ast.ImportSpec{Name: ast.NewIdent(name), Path: &ast.BasicLit{Kind: token.STRING, Value: strconv.Quote(path)}}
	decl := &ast.GenDecl{Tok: token.IMPORT, Specs: []ast.Spec{spec}}
	f.Decls = append([]ast.Decl{decl}, f.Decls...)
	f.Imports = append(f.Imports, spec)
}

func addImportText(src, name, path string) string {
	if strings.Contains(src, strconv.Quote(path)) {
		return src
	}
	i := strings.Index(src, "\nimport ")
	if i < 0 {
		die("no import declaration to extend")
	}
	line := "\nimport " + name + " " + strconv.Quote(path)
	return src[:i] + line + src[i:]
}

// ---------------------------------------------------------------- rewriter

type rewriter struct {
	fset      *token.FileSet
	info      *types.Info
	file      string
	fn        string
	n         int
	usedSimrt bool
	stats     map[string]int
	tmp       int
}

func (r *rewriter) site(kind string) *ast.BasicLit {
	r.n++
	return &ast.BasicLit{Kind: token.STRING, Value: strconv.Quote(fmt.Sprintf("%s:%s:%s#%d", strings.TrimSuffix(r.file, ".go"), r.fn, kind, r.n))}
}

func (r *rewriter) call(fn string, args ...ast.Expr) *ast.CallExpr {
	r.usedSimrt = true
	return &ast.CallExpr{Fun: &ast.SelectorExpr{X: ast.NewIdent("simrt"), Sel: ast.NewIdent(fn)}, Args: args}
}

func (r *rewriter) yield(kind string) ast.Stmt {
	r.stats["yield_points"]++
	return &ast.ExprStmt{X: r.call("Yield", r.site(kind))}
}

func (r *rewriter) typeOf(e ast.Expr) types.Type {
	if tv, ok := r.info.Types[e]; ok && tv.Type != nil {
		return tv.Type
	}
	return nil
}

func isNamed(t types.Type, pkg, name string) bool {
	if t == nil {
		return false
	}
	if p, ok := t.(*types.Pointer); ok {
		t = p.Elem()
	}
	n, ok := t.(*types.Named)
	if !ok {
		return false
	}
	o := n.Obj()
	return o != nil && o.Pkg() != nil && o.Pkg().Path() == pkg && o.Name() == name
}

// syncKind classifies what synchronisation a statement performs directly
// (not inside nested function literals or nested blocks).
type syncInfo struct {
	pre  string // non-empty: yield before
	post bool   // yield after (operation may block and wake up)
}

func (r *rewriter) classifyExpr(e ast.Node) (si syncInfo) {
	ast.Inspect(e, func(n ast.Node) bool {
		switch x := n.(type) {
		case *ast.FuncLit:
			return false
		case *ast.BlockStmt:
			return false
		case *ast.UnaryExpr:
			if x.Op == token.ARROW {
				si.pre, si.post = "recv", true
			}
		case *ast.CallExpr:
			if id, ok := x.Fun.(*ast.Ident); ok && id.Name == "close" && len(x.Args) == 1 {
				if t := r.typeOf(x.Args[0]); t != nil {
					if _, ok := t.Underlying().(*types.Chan); ok && si.pre == "" {
						si.pre = "close"
					}
				}
			}
			if sel, ok := x.Fun.(*ast.SelectorExpr); ok {
				if id, ok := sel.X.(*ast.Ident); ok {
					if obj, ok := r.info.Uses[id].(*types.PkgName); ok && obj.Imported().Path() == "sync/atomic" && si.pre == "" {
						si.pre = "atomic"
					}
				}
				rt := r.typeOf(sel.X)
				switch sel.Sel.Name {
				case "Wait":
					if isNamed(rt, "sync", "WaitGroup") || isNamed(rt, "sync", "Cond") {
						si.pre, si.post = "wait", true
					}
				case "Unlock", "RUnlock":
					// no yield needed before a release
				case "Load", "Store", "Add", "Swap", "CompareAndSwap":
					if rt != nil {
						if p, ok := rt.(*types.Pointer); ok {
							rt = p.Elem()
						}
						if n, ok := rt.(*types.Named); ok && n.Obj().Pkg() != nil && n.Obj().Pkg().Path() == "sync/atomic" && si.pre == "" {
							si.pre = "atomic"
						}
					}
				case "Done":
					if isNamed(rt, "sync", "WaitGroup") && si.pre == "" {
						si.pre = "wgdone"
					}
				}
			}
		}
		return true
	})
	return
}

// lockCall recognises `X.Lock()` / `X.RLock()` on sync.Mutex / sync.RWMutex.
func (r *rewriter) lockCall(s ast.Stmt) (recv ast.Expr, try string, ok bool) {
	es, isExpr := s.(*ast.ExprStmt)
	if !isExpr {
		return nil, "", false
	}
	ce, isCall := es.X.(*ast.CallExpr)
	if !isCall || len(ce.Args) != 0 {
		return nil, "", false
	}
	sel, isSel := ce.Fun.(*ast.SelectorExpr)
	if !isSel {
		return nil, "", false
	}
	rt := r.typeOf(sel.X)
	isMu := isNamed(rt, "sync", "Mutex") || isNamed(rt, "sync", "RWMutex")
	if !isMu {
		// embedded mutex: method selection resolves to sync.(*Mutex).Lock
		if selInfo, found := r.info.Selections[sel]; found {
			if fn, isFn := selInfo.Obj().(*types.Func); isFn && fn.Pkg() != nil && fn.Pkg().Path() == "sync" {
				isMu = true
			}
		}
	}
	if !isMu {
		return nil, "", false
	}
	switch sel.Sel.Name {
	case "Lock":
		return sel.X, "TryLock", true
	case "RLock":
		return sel.X, "TryRLock", true
	}
	return nil, "", false
}

func (r *rewriter) instrument(f *ast.File) {
	for _, d := range f.Decls {
		fd, ok := d.(*ast.FuncDecl)
		if !ok || fd.Body == nil {
			continue
		}
		r.fn = fd.Name.Name
		r.n = 0
		r.block(fd.Body)
	}
}

// block rewrites a statement list in place, recursing into nested statements
// and function literals.
func (r *rewriter) block(b *ast.BlockStmt) {
	if b == nil {
		return
	}
	b.List = r.stmts(b.List)
}

func (r *rewriter) stmts(list []ast.Stmt) []ast.Stmt {
	var out []ast.Stmt
	for _, s := range list {
		out = append(out, r.stmt(s)...)
	}
	return out
}

func (r *rewriter) funcLits(n ast.Node) {
	ast.Inspect(n, func(x ast.Node) bool {
		if fl, ok := x.(*ast.FuncLit); ok {
			r.block(fl.Body)
			return false
		}
		return true
	})
}

func (r *rewriter) stmt(s ast.Stmt) []ast.Stmt {
	switch x := s.(type) {
	case *ast.LabeledStmt:
		inner := r.stmt(x.Stmt)
		// keep the label on the (last) real statement; prepend the rest
		if len(inner) == 1 {
			x.Stmt = inner[0]
			return []ast.Stmt{x}
		}
		// find the original statement in inner (loops/selects stay single)
		for i, st := range inner {
			switch st.(type) {
			case *ast.ForStmt, *ast.RangeStmt, *ast.SelectStmt, *ast.SwitchStmt, *ast.TypeSwitchStmt:
				x.Stmt = st
				res := append([]ast.Stmt{}, inner[:i]...)
				res = append(res, x)
				res = append(res, inner[i+1:]...)
				return res
			}
		}
		x.Stmt = &ast.BlockStmt{List: inner}
		return []ast.Stmt{x}
	case *ast.BlockStmt:
		r.block(x)
		return []ast.Stmt{x}
	case *ast.IfStmt:
		var pre []ast.Stmt
		if x.Init != nil {
			r.funcLits(x.Init)
			if si := r.classifyExpr(x.Init); si.pre != "" {
				pre = append(pre, r.yield(si.pre))
			}
		}
		r.funcLits(x.Cond)
		if si := r.classifyExpr(x.Cond); si.pre != "" && len(pre) == 0 {
			pre = append(pre, r.yield(si.pre))
		}
		r.block(x.Body)
		if x.Else != nil {
			el := r.stmt(x.Else)
			if len(el) == 1 {
				x.Else = el[0]
			} else {
				x.Else = &ast.BlockStmt{List: el}
			}
		}
		return append(pre, x)
	case *ast.ForStmt:
		if x.Init != nil {
			r.funcLits(x.Init)
		}
		if x.Cond != nil {
			r.funcLits(x.Cond)
		}
		r.block(x.Body)
		return []ast.Stmt{x}
	case *ast.RangeStmt:
		r.funcLits(x.X)
		r.block(x.Body)
		if t := r.typeOf(x.X); t != nil {
			if _, ok := t.Underlying().(*types.Chan); ok {
				// every iteration is a blocking receive
				x.Body.List = append([]ast.Stmt{r.yield("rangerecv")}, x.Body.List...)
				return []ast.Stmt{r.yield("rangechan"), x, r.yield("rangedone")}
			}
		}
		return []ast.Stmt{x}
	case *ast.SwitchStmt:
		if x.Init != nil {
			r.funcLits(x.Init)
		}
		if x.Tag != nil {
			r.funcLits(x.Tag)
		}
		for _, c := range x.Body.List {
			cc := c.(*ast.CaseClause)
			cc.Body = r.stmts(cc.Body)
		}
		return []ast.Stmt{x}
	case *ast.TypeSwitchStmt:
		for _, c := range x.Body.List {
			cc := c.(*ast.CaseClause)
			cc.Body = r.stmts(cc.Body)
		}
		return []ast.Stmt{x}
	case *ast.SelectStmt:
		pre := r.yield("select")
		for _, c := range x.Body.List {
			cc := c.(*ast.CommClause)
			cc.Body = r.stmts(cc.Body)
			cc.Body = append([]ast.Stmt{r.yield("selected")}, cc.Body...)
		}
		return []ast.Stmt{pre, x}
	case *ast.SendStmt:
		r.funcLits(x)
		return []ast.Stmt{r.yield("send"), x, r.yield("sent")}
	case *ast.GoStmt:
		return r.goStmt(x)
	case *ast.DeferStmt:
		r.funcLits(x.Call)
		return []ast.Stmt{x}
	case *ast.ExprStmt:
		if recv, try, ok := r.lockCall(x); ok {
			r.stats["lock_rewrites"]++
			return []ast.Stmt{&ast.ExprStmt{X: r.call("Lock", r.site("lock"), &ast.SelectorExpr{X: recv, Sel: ast.NewIdent(try)})}}
		}
		r.funcLits(x)
		return r.wrapSync(x, x)
	case *ast.AssignStmt:
		r.funcLits(x)
		return r.wrapSync(x, x)
	case *ast.DeclStmt:
		r.funcLits(x)
		return r.wrapSync(x, x)
	case *ast.IncDecStmt:
		return []ast.Stmt{x}
	case *ast.ReturnStmt:
		r.funcLits(x)
		si := r.classifyExpr(x)
		if si.pre != "" {
			return []ast.Stmt{r.yield(si.pre), x}
		}
		return []ast.Stmt{x}
	default:
		return []ast.Stmt{s}
	}
}

func (r *rewriter) wrapSync(s ast.Stmt, n ast.Node) []ast.Stmt {
	si := r.classifyExpr(n)
	if si.pre == "" {
		return []ast.Stmt{s}
	}
	out := []ast.Stmt{r.yield(si.pre), s}
	if si.post {
		out = append(out, r.yield(si.pre+"-woke"))
	}
	return out
}

func (r *rewriter) goStmt(g *ast.GoStmt) []ast.Stmt {
	r.stats["go_rewrites"]++
	call := g.Call
	if fl, ok := call.Fun.(*ast.FuncLit); ok && len(call.Args) == 0 {
		r.block(fl.Body)
		return []ast.Stmt{&ast.ExprStmt{X: r.call("Go", r.site("go"), fl)}}
	}
	r.funcLits(call)
	// evaluate function value and arguments now, run the call in the task
	var pre []ast.Stmt
	var args []ast.Expr
	for _, a := range call.Args {
		r.tmp++
		id := ast.NewIdent(fmt.Sprintf("_simarg%d", r.tmp))
		pre = append(pre, &ast.AssignStmt{Lhs: []ast.Expr{id}, Tok: token.DEFINE, Rhs: []ast.Expr{a}})
		args = append(args, id)
	}
	fun := call.Fun
	if _, isLit := fun.(*ast.FuncLit); isLit {
		r.tmp++
		id := ast.NewIdent(fmt.Sprintf("_simfn%d", r.tmp))
		pre = append(pre, &ast.AssignStmt{Lhs: []ast.Expr{id}, Tok: token.DEFINE, Rhs: []ast.Expr{fun}})
		fun = id
	}
	inner := &ast.CallExpr{Fun: fun, Args: args, Ellipsis: call.Ellipsis}
	lit := &ast.FuncLit{Type: &ast.FuncType{Params: &ast.FieldList{}}, Body: &ast.BlockStmt{List: []ast.Stmt{&ast.ExprStmt{X: inner}}}}
	st := &ast.ExprStmt{X: r.call("Go", r.site("go"), lit)}
	if len(pre) == 0 {
		return []ast.Stmt{st}
	}
	return []ast.Stmt{&ast.BlockStmt{List: append(pre, st)}}
}

// ---------------------------------------------------------------- map range

// mapRange rewrites `for k, v := range m` over maps into iteration over
// simrt.SortedKeys(m) so that the order is a function of the keys only.
func (r *rewriter) mapRange(f *ast.File) {
	ast.Inspect(f, func(n ast.Node) bool {
		switch x := n.(type) {
		case *ast.BlockStmt:
			x.List = r.mapRangeList(x.List)
		case *ast.CaseClause:
			x.Body = r.mapRangeList(x.Body)
		case *ast.CommClause:
			x.Body = r.mapRangeList(x.Body)
		}
		return true
	})
}

func simpleExpr(e ast.Expr) bool {
	switch x := e.(type) {
	case *ast.Ident:
		return true
	case *ast.SelectorExpr:
		return simpleExpr(x.X)
	case *ast.StarExpr:
		return simpleExpr(x.X)
	case *ast.ParenExpr:
		return simpleExpr(x.X)
	}
	return false
}

func (r *rewriter) mapRangeList(list []ast.Stmt) []ast.Stmt {
	var out []ast.Stmt
	for _, s := range list {
		target := s
		var lbl *ast.LabeledStmt
		if l, ok := s.(*ast.LabeledStmt); ok {
			lbl = l
			target = l.Stmt
		}
		rs, ok := target.(*ast.RangeStmt)
		if !ok {
			out = append(out, s)
			continue
		}
		t := r.typeOf(rs.X)
		if t == nil {
			out = append(out, s)
			continue
		}
		if _, isMap := t.Underlying().(*types.Map); !isMap {
			out = append(out, s)
			continue
		}
		r.stats["maprange_rewrites"]++
		m := rs.X
		if !simpleExpr(m) {
			r.tmp++
			id := ast.NewIdent(fmt.Sprintf("_simmap%d", r.tmp))
			out = append(out, &ast.AssignStmt{Lhs: []ast.Expr{id}, Tok: token.DEFINE, Rhs: []ast.Expr{m}})
			m = id
		}
		isBlank := func(e ast.Expr) bool {
			if e == nil {
				return true
			}
			id, ok := e.(*ast.Ident)
			return ok && id.Name == "_"
		}
		r.tmp++
		kid := ast.NewIdent(fmt.Sprintf("_simkey%d", r.tmp))
		var prologue []ast.Stmt
		// presence check (an entry deleted during iteration is not produced)
		okid := ast.NewIdent(fmt.Sprintf("_simok%d", r.tmp))
		vid := ast.NewIdent(fmt.Sprintf("_simval%d", r.tmp))
		prologue = append(prologue,
			&ast.AssignStmt{Lhs: []ast.Expr{vid, okid}, Tok: token.DEFINE, Rhs: []ast.Expr{&ast.IndexExpr{X: m, Index: kid}}},
			&ast.IfStmt{Cond: &ast.UnaryExpr{Op: token.NOT, X: okid}, Body: &ast.BlockStmt{List: []ast.Stmt{&ast.BranchStmt{Tok: token.CONTINUE}}}},
			&ast.AssignStmt{Lhs: []ast.Expr{ast.NewIdent("_")}, Tok: token.ASSIGN, Rhs: []ast.Expr{vid}},
		)
		tok := rs.Tok
		if tok == token.ILLEGAL {
			tok = token.DEFINE
		}
		if !isBlank(rs.Key) {
			prologue = append(prologue, &ast.AssignStmt{Lhs: []ast.Expr{rs.Key}, Tok: tok, Rhs: []ast.Expr{kid}})
			if tok == token.DEFINE {
				prologue = append(prologue, &ast.AssignStmt{Lhs: []ast.Expr{ast.NewIdent("_")}, Tok: token.ASSIGN, Rhs: []ast.Expr{rs.Key}})
			}
		}
		if !isBlank(rs.Value) {
			prologue = append(prologue, &ast.AssignStmt{Lhs: []ast.Expr{rs.Value}, Tok: tok, Rhs: []ast.Expr{vid}})
			if tok == token.DEFINE {
				prologue = append(prologue, &ast.AssignStmt{Lhs: []ast.Expr{ast.NewIdent("_")}, Tok: token.ASSIGN, Rhs: []ast.Expr{rs.Value}})
			}
		}
		nrs := &ast.RangeStmt{
			Key: ast.NewIdent("_"), Value: kid, Tok: token.DEFINE,
			X:    r.call("SortedKeys", m),
			Body: &ast.BlockStmt{List: append(prologue, rs.Body.List...)},
		}
		if lbl != nil {
			lbl.Stmt = nrs
			out = append(out, lbl)
		} else {
			out = append(out, nrs)
		}
	}
	return out
}
