// mkoverlay generates the build overlay that turns the *current working tree*
// of /repo into the simulated build: it injects the simulator packages as
// virtual packages of the maddy module, injects export shims next to existing
// packages, rewrites the "os" import of the spool files to the simulated file
// system, inserts scheduling points before every synchronisation operation of
// the listed files, and makes map iteration deterministic in listed packages.
//
// Nothing is written under /repo. Exit status 2 = cannot generate (harness
// trouble), never a verdict.
package main

import (
	"bytes"
	"encoding/json"
	"flag"
	"fmt"
	"go/ast"
	"go/importer"
	"go/parser"
	"go/printer"
	"go/token"
	"go/types"
	"io"
	"os"
	"os/exec"
	"path/filepath"
	"sort"
	"strconv"
	"strings"
)

const simrtPath = "github.com/foxcpp/maddy/internal/verifsim/simrt"
const simfsPath = "github.com/foxcpp/maddy/internal/verifsim/simfs"

type Config struct {
	OsRewrite  []string          `json:"os_rewrite"`
	Instrument []string          `json:"instrument"`
	MapRange   []string          `json:"maprange"` // package dirs (relative)
	Seams      []Seam            `json:"seams"`
	Exports    map[string]string `json:"exports"` // verif-relative source -> repo-relative dest
	// Guards: lock-discipline assertions (instrumented files only): every
	// statement that touches <recv>.<Field> must run with <recv>.<Lock> held.
	// An anchor that no longer exists is skipped silently (no assertion, no
	// verdict).
	Guards []Guard `json:"guards"`
	// Deps: textual rewrites of, and files injected into, packages of
	// dependencies (located with `go list -m`; module cache files are replaced
	// through the overlay like any other path).
	Deps []DepRewrite `json:"deps"`
}

type DepRewrite struct {
	Module string `json:"module"`
	// Rewrites: file (relative to the module root) -> replace every occurrence
	// of Old by New; the anchor must occur at least once.
	Rewrites []struct {
		File string `json:"file"`
		Old  string `json:"old"`
		New  string `json:"new"`
	} `json:"rewrites"`
	// Inject: verif-relative source -> file name relative to the module root
	Inject map[string]string `json:"inject"`
}

type Guard struct {
	File  string `json:"file"`
	Field string `json:"field"`
	Lock  string `json:"lock"`
	Name  string `json:"name"`
}

// Seam is a textual one-line replacement that must match exactly once.
type Seam struct {
	File string `json:"file"`
	Old  string `json:"old"`
	New  string `json:"new"`
	// AddImport: import path to add (optional), with optional name "name path".
	AddImport string `json:"add_import"`
}

func die(format string, a ...interface{}) {
	fmt.Fprintf(os.Stderr, "HARNESS-ERROR mkoverlay: "+format+"\n", a...)
	os.Exit(2)
}

func main() {
	repo := flag.String("repo", "/repo", "repository working tree")
	verif := flag.String("verif", "/verif", "verification tree")
	out := flag.String("out", "/verif/.build", "output directory")
	gocmd := flag.String("go", "go1.26.8", "go command for export data")
	flag.Parse()

	var cfg Config
	b, err := os.ReadFile(filepath.Join(*verif, "tools/mkoverlay/config.json"))
	if err != nil {
		die("config: %v", err)
	}
	if err := json.Unmarshal(b, &cfg); err != nil {
		die("config: %v", err)
	}

	if _, err := os.Stat(filepath.Join(*repo, "internal/verifsim")); err == nil {
		die("%s/internal/verifsim exists in the repository; refusing to overlay it", *repo)
	}

	srcOut := filepath.Join(*out, "src")
	os.RemoveAll(srcOut)
	if err := os.MkdirAll(srcOut, 0o755); err != nil {
		die("%v", err)
	}
	replace := map[string]string{}

	// 1. inject simulator packages
	simRoot := filepath.Join(*verif, "sim")
	filepath.Walk(simRoot, func(p string, fi os.FileInfo, err error) error {
		if err != nil || fi.IsDir() || !strings.HasSuffix(p, ".go") {
			return nil
		}
		rel, _ := filepath.Rel(simRoot, p)
		if strings.HasPrefix(rel, "exports/") {
			return nil
		}
		replace[filepath.Join(*repo, "internal/verifsim", rel)] = p
		return nil
	})
	// 2. export shims
	for src, dst := range cfg.Exports {
		sp := filepath.Join(*verif, src)
		if _, err := os.Stat(sp); err != nil {
			die("export shim %s: %v", src, err)
		}
		dp := filepath.Join(*repo, dst)
		if _, err := os.Stat(dp); err == nil {
			die("export shim destination %s exists in the repository", dst)
		}
		if _, err := os.Stat(filepath.Dir(dp)); err != nil {
			die("export shim destination directory for %s is missing: %v", dst, err)
		}
		replace[dp] = sp
	}

	// files to rewrite: path -> set of transforms
	type job struct{ osRw, instr, maprange bool }
	jobs := map[string]*job{}
	get := func(rel string) *job {
		j := jobs[rel]
		if j == nil {
			j = &job{}
			jobs[rel] = j
		}
		return j
	}
	expand := func(pats []string) []string {
		var out []string
		for _, pat := range pats {
			ms, _ := filepath.Glob(filepath.Join(*repo, pat))
			if len(ms) == 0 {
				die("anchor file %s not found in %s", pat, *repo)
			}
			for _, m := range ms {
				if strings.HasSuffix(m, "_test.go") {
					continue
				}
				rel, _ := filepath.Rel(*repo, m)
				out = append(out, rel)
			}
		}
		return out
	}
	for _, f := range expand(cfg.OsRewrite) {
		get(f).osRw = true
	}
	for _, f := range expand(cfg.Instrument) {
		get(f).instr = true
	}
	for _, d := range cfg.MapRange {
		ms, _ := filepath.Glob(filepath.Join(*repo, d, "*.go"))
		if len(ms) == 0 {
			die("maprange package %s has no files", d)
		}
		for _, m := range ms {
			if strings.HasSuffix(m, "_test.go") {
				continue
			}
			rel, _ := filepath.Rel(*repo, m)
			get(rel).maprange = true
		}
	}
	seamsByFile := map[string][]Seam{}
	for _, s := range cfg.Seams {
		seamsByFile[s.File] = append(seamsByFile[s.File], s)
		get(s.File)
	}

	// group by package dir for type checking
	byDir := map[string][]string{}
	for rel := range jobs {
		byDir[filepath.Dir(rel)] = append(byDir[filepath.Dir(rel)], rel)
	}
	dirs := make([]string, 0, len(byDir))
	for d := range byDir {
		dirs = append(dirs, d)
	}
	sort.Strings(dirs)

	needTypes := false
	for _, j := range jobs {
		if j.instr || j.maprange {
			needTypes = true
		}
	}
	var exports map[string]string
	if needTypes {
		exports = loadExports(*repo, *gocmd, dirs)
	}

	stats := map[string]int{}
	for _, d := range dirs {
		fset := token.NewFileSet()
		pkgFiles := listGoFiles(*repo, *gocmd, d)
		var files []*ast.File
		fileByRel := map[string]*ast.File{}
		for _, name := range pkgFiles {
			p := filepath.Join(*repo, d, name)
			f, err := parser.ParseFile(fset, p, nil, parser.ParseComments)
			if err != nil {
				die("parse %s: %v", p, err)
			}
			files = append(files, f)
			fileByRel[filepath.Join(d, name)] = f
		}
		info := &types.Info{Types: map[ast.Expr]types.TypeAndValue{}, Uses: map[*ast.Ident]types.Object{}, Selections: map[*ast.SelectorExpr]*types.Selection{}}
		if needTypes {
			conf := types.Config{
				Importer: importer.ForCompiler(fset, "gc", func(path string) (io.ReadCloser, error) {
					e, ok := exports[path]
					if !ok || e == "" {
						return nil, fmt.Errorf("no export data for %s", path)
					}
					return os.Open(e)
				}),
				Error: func(err error) { stats["type_errors"]++ },
			}
			conf.Check(d, fset, files, info)
		}
		for _, rel := range byDir[d] {
			f := fileByRel[rel]
			j := jobs[rel]
			if f == nil {
				if j.maprange && !j.instr && !j.osRw && len(seamsByFile[rel]) == 0 {
					// picked up by a package glob but excluded by build
					// constraints: nothing to do
					continue
				}
				die("file %s is not part of its package under the current build constraints", rel)
			}
			rw := &rewriter{fset: fset, info: info, file: filepath.Base(rel), stats: stats}
			for _, g := range cfg.Guards {
				if g.File == rel {
					rw.guards = append(rw.guards, g)
				}
			}
			if j.osRw {
				if !rewriteImport(f, "os", simfsPath, "os") {
					// the file no longer imports os: nothing to shim, not an error
					stats["os_import_absent"]++
				}
			}
			if j.maprange {
				rw.mapRange(f)
			}
			if j.instr {
				rw.instrument(f)
			}
			if rw.usedSimrt {
				addImport(f, "simrt", simrtPath)
			}
			if j.instr || j.maprange {
				// comments lose their anchors when statements are moved; keep
				// only what precedes the package clause (build constraints)
				var keep []*ast.CommentGroup
				for _, cg := range f.Comments {
					if cg.End() < f.Package {
						keep = append(keep, cg)
					}
				}
				f.Comments = keep
			}
			var buf bytes.Buffer
			if err := printer.Fprint(&buf, fset, f); err != nil {
				die("print %s: %v", rel, err)
			}
			src := buf.String()
			for _, s := range seamsByFile[rel] {
				if strings.Count(src, s.Old) != 1 {
					die("seam anchor %q occurs %d times in %s (need exactly 1)", s.Old, strings.Count(src, s.Old), rel)
				}
				src = strings.Replace(src, s.Old, s.New, 1)
				if s.AddImport != "" {
					parts := strings.Fields(s.AddImport)
					name, path := "", parts[len(parts)-1]
					if len(parts) == 2 {
						name = parts[0]
					}
					src = addImportText(src, name, path)
				}
			}
			// re-parse to make sure the output is syntactically valid
			if _, err := parser.ParseFile(token.NewFileSet(), rel, src, 0); err != nil {
				die("rewritten %s does not parse: %v", rel, err)
			}
			op := filepath.Join(srcOut, rel)
			os.MkdirAll(filepath.Dir(op), 0o755)
			if err := os.WriteFile(op, []byte(src), 0o644); err != nil {
				die("%v", err)
			}
			replace[filepath.Join(*repo, rel)] = op
		}
	}

	// dependencies
	depReplaces := map[string]string{}
	for _, d := range cfg.Deps {
		cmd := exec.Command(*gocmd, "list", "-m", "-f", "{{.Dir}}", d.Module)
		cmd.Dir = *repo
		cmd.Env = goEnv()
		o, err := cmd.Output()
		dir := strings.TrimSpace(string(o))
		if err != nil || dir == "" {
			die("cannot locate dependency %s: %v", d.Module, err)
		}
		// files below GOMODCACHE must not be replaced through an overlay: the
		// module is copied (sources only), rewritten, and the build's private
		// go.mod gets a directory replacement for it (see dep_replaces.json)
		cp := filepath.Join(*out, "deps", strings.ReplaceAll(d.Module, "/", "_"))
		os.RemoveAll(cp)
		filepath.Walk(dir, func(p string, info os.FileInfo, err error) error {
			if err != nil {
				return err
			}
			rel, _ := filepath.Rel(dir, p)
			if info.IsDir() {
				return os.MkdirAll(filepath.Join(cp, rel), 0o755)
			}
			if strings.HasSuffix(p, "_test.go") || !(strings.HasSuffix(p, ".go") || info.Name() == "go.mod") {
				return nil
			}
			b, err := os.ReadFile(p)
			if err != nil {
				die("%v", err)
			}
			return os.WriteFile(filepath.Join(cp, rel), b, 0o644)
		})
		for _, rw := range d.Rewrites {
			fp := filepath.Join(cp, rw.File)
			b, err := os.ReadFile(fp)
			if err != nil {
				die("dependency file %s/%s: %v", d.Module, rw.File, err)
			}
			src := string(b)
			if !strings.Contains(src, rw.Old) {
				die("dependency anchor %q not found in %s/%s", rw.Old, d.Module, rw.File)
			}
			src = strings.ReplaceAll(src, rw.Old, rw.New)
			if _, err := parser.ParseFile(token.NewFileSet(), rw.File, src, 0); err != nil {
				die("rewritten dependency file %s does not parse: %v", rw.File, err)
			}
			if err := os.WriteFile(fp, []byte(src), 0o644); err != nil {
				die("%v", err)
			}
		}
		for src, name := range d.Inject {
			b, err := os.ReadFile(filepath.Join(*verif, src))
			if err != nil {
				die("dependency inject %s: %v", src, err)
			}
			if err := os.WriteFile(filepath.Join(cp, name), b, 0o644); err != nil {
				die("%v", err)
			}
		}
		depReplaces[d.Module] = cp
	}
	dr, _ := json.Marshal(depReplaces)
	os.WriteFile(filepath.Join(*out, "dep_replaces.json"), dr, 0o644)

	ov, _ := json.MarshalIndent(map[string]interface{}{"Replace": replace}, "", " ")
	if err := os.WriteFile(filepath.Join(*out, "overlay.json"), ov, 0o644); err != nil {
		die("%v", err)
	}
	st, _ := json.Marshal(stats)
	os.WriteFile(filepath.Join(*out, "overlay_stats.json"), st, 0o644)
	fmt.Printf("mkoverlay: %d files replaced/injected, stats %s\n", len(replace), st)
}

func goEnv() []string {
	env := os.Environ()
	env = append(env, "GOFLAGS=-mod=mod", "GOPROXY=off", "GOSUMDB=off", "GOTOOLCHAIN=local")
	return env
}

func listGoFiles(repo, gocmd, dir string) []string {
	cmd := exec.Command(gocmd, "list", "-json=GoFiles,CgoFiles", "./"+dir)
	cmd.Dir = repo
	cmd.Env = goEnv()
	cmd.Stderr = os.Stderr
	outb, err := cmd.Output()
	if err != nil {
		die("go list ./%s: %v", dir, err)
	}
	var r struct{ GoFiles, CgoFiles []string }
	if err := json.Unmarshal(outb, &r); err != nil {
		die("go list output: %v", err)
	}
	return append(r.GoFiles, r.CgoFiles...)
}

func loadExports(repo, gocmd string, dirs []string) map[string]string {
	args := []string{"list", "-export", "-deps", "-json=ImportPath,Export"}
	for _, d := range dirs {
		args = append(args, "./"+d)
	}
	cmd := exec.Command(gocmd, args...)
	cmd.Dir = repo
	cmd.Env = goEnv()
	cmd.Stderr = os.Stderr
	outb, err := cmd.Output()
	if err != nil {
		die("go list -export failed (does the tree build?): %v", err)
	}
	res := map[string]string{}
	dec := json.NewDecoder(bytes.NewReader(outb))
	for dec.More() {
		var r struct{ ImportPath, Export string }
		if err := dec.Decode(&r); err != nil {
			die("go list output: %v", err)
		}
		res[r.ImportPath] = r.Export
	}
	return res
}

func rewriteImport(f *ast.File, old, newPath, name string) bool {
	for _, im := range f.Imports {
		p, _ := strconv.Unquote(im.Path.Value)
		if p == old {
			im.Path.Value = strconv.Quote(newPath)
			im.Name = ast.NewIdent(name)
			return true
		}
	}
	return false
}

func addImport(f *ast.File, name, path string) {
	for _, im := range f.Imports {
		p, _ := strconv.Unquote(im.Path.Value)
		if p == path {
			return
		}
	}
	spec := &ast.ImportSpec{Name: ast.NewIdent(name), Path: &ast.BasicLit{Kind: token.STRING, Value: strconv.Quote(path)}}
	decl := &ast.GenDecl{Tok: token.IMPORT, Specs: []ast.Spec{spec}}
	f.Decls = append([]ast.Decl{decl}, f.Decls...)
	f.Imports = append(f.Imports, spec)
}

func addImportText(src, name, path string) string {
	if strings.Contains(src, strconv.Quote(path)) {
		return src
	}
	i := strings.Index(src, "\nimport ")
	if i < 0 {
		die("no import declaration to extend")
	}
	line := "\nimport " + name + " " + strconv.Quote(path)
	return src[:i] + line + src[i:]
}

// ---------------------------------------------------------------- rewriter

type rewriter struct {
	fset      *token.FileSet
	info      *types.Info
	file      string
	fn        string
	n         int
	usedSimrt bool
	stats     map[string]int
	tmp       int
	guards    []Guard
}

func (r *rewriter) site(kind string) *ast.BasicLit {
	r.n++
	return &ast.BasicLit{Kind: token.STRING, Value: strconv.Quote(fmt.Sprintf("%s:%s:%s#%d", strings.TrimSuffix(r.file, ".go"), r.fn, kind, r.n))}
}

func (r *rewriter) call(fn string, args ...ast.Expr) *ast.CallExpr {
	r.usedSimrt = true
	return &ast.CallExpr{Fun: &ast.SelectorExpr{X: ast.NewIdent("simrt"), Sel: ast.NewIdent(fn)}, Args: args}
}

func (r *rewriter) yield(kind string) ast.Stmt {
	r.stats["yield_points"]++
	return &ast.ExprStmt{X: r.call("Yield", r.site(kind))}
}

func (r *rewriter) typeOf(e ast.Expr) types.Type {
	if tv, ok := r.info.Types[e]; ok && tv.Type != nil {
		return tv.Type
	}
	return nil
}

func isNamed(t types.Type, pkg, name string) bool {
	if t == nil {
		return false
	}
	if p, ok := t.(*types.Pointer); ok {
		t = p.Elem()
	}
	n, ok := t.(*types.Named)
	if !ok {
		return false
	}
	o := n.Obj()
	return o != nil && o.Pkg() != nil && o.Pkg().Path() == pkg && o.Name() == name
}

// syncKind classifies what synchronisation a statement performs directly
// (not inside nested function literals or nested blocks).
type syncInfo struct {
	pre  string // non-empty: yield before
	post bool   // yield after (operation may block and wake up)
}

func (r *rewriter) classifyExpr(e ast.Node) (si syncInfo) {
	ast.Inspect(e, func(n ast.Node) bool {
		switch x := n.(type) {
		case *ast.FuncLit:
			return false
		case *ast.BlockStmt:
			return false
		case *ast.UnaryExpr:
			if x.Op == token.ARROW {
				si.pre, si.post = "recv", true
			}
		case *ast.CallExpr:
			if id, ok := x.Fun.(*ast.Ident); ok && id.Name == "close" && len(x.Args) == 1 {
				if t := r.typeOf(x.Args[0]); t != nil {
					if _, ok := t.Underlying().(*types.Chan); ok && si.pre == "" {
						si.pre = "close"
					}
				}
			}
			if sel, ok := x.Fun.(*ast.SelectorExpr); ok {
				if id, ok := sel.X.(*ast.Ident); ok {
					if obj, ok := r.info.Uses[id].(*types.PkgName); ok && obj.Imported().Path() == "sync/atomic" && si.pre == "" {
						si.pre = "atomic"
					}
				}
				rt := r.typeOf(sel.X)
				switch sel.Sel.Name {
				case "Wait":
					if isNamed(rt, "sync", "WaitGroup") || isNamed(rt, "sync", "Cond") {
						si.pre, si.post = "wait", true
					}
				case "Unlock", "RUnlock":
					// no yield needed before a release
				case "Load", "Store", "Add", "Swap", "CompareAndSwap":
					if rt != nil {
						if p, ok := rt.(*types.Pointer); ok {
							rt = p.Elem()
						}
						if n, ok := rt.(*types.Named); ok && n.Obj().Pkg() != nil && n.Obj().Pkg().Path() == "sync/atomic" && si.pre == "" {
							si.pre = "atomic"
						}
					}
				case "Done":
					if isNamed(rt, "sync", "WaitGroup") && si.pre == "" {
						si.pre = "wgdone"
					}
				}
			}
		}
		return true
	})
	return
}

// lockCall recognises `X.Lock()` / `X.RLock()` on sync.Mutex / sync.RWMutex.
func (r *rewriter) lockCall(s ast.Stmt) (recv ast.Expr, try string, ok bool) {
	es, isExpr := s.(*ast.ExprStmt)
	if !isExpr {
		return nil, "", false
	}
	ce, isCall := es.X.(*ast.CallExpr)
	if !isCall || len(ce.Args) != 0 {
		return nil, "", false
	}
	sel, isSel := ce.Fun.(*ast.SelectorExpr)
	if !isSel {
		return nil, "", false
	}
	rt := r.typeOf(sel.X)
	isMu := isNamed(rt, "sync", "Mutex") || isNamed(rt, "sync", "RWMutex")
	if !isMu {
		// embedded mutex: method selection resolves to sync.(*Mutex).Lock
		if selInfo, found := r.info.Selections[sel]; found {
			if fn, isFn := selInfo.Obj().(*types.Func); isFn && fn.Pkg() != nil && fn.Pkg().Path() == "sync" {
				isMu = true
			}
		}
	}
	if !isMu {
		return nil, "", false
	}
	switch sel.Sel.Name {
	case "Lock":
		return sel.X, "TryLock", true
	case "RLock":
		return sel.X, "TryRLock", true
	}
	return nil, "", false
}

// guardUnlock rewrites `X.Unlock()` for a guard lock into
// `simrt.UnlockG(X.Unlock, &X)` so that the runtime knows which locks a task
// holds.
func (r *rewriter) guardUnlock(e ast.Expr) *ast.CallExpr {
	ce, ok := e.(*ast.CallExpr)
	if !ok || len(ce.Args) != 0 {
		return nil
	}
	sel, ok := ce.Fun.(*ast.SelectorExpr)
	if !ok || (sel.Sel.Name != "Unlock" && sel.Sel.Name != "RUnlock") {
		return nil
	}
	rt := r.typeOf(sel.X)
	isMu := isNamed(rt, "sync", "Mutex") || isNamed(rt, "sync", "RWMutex")
	if !isMu {
		if selInfo, found := r.info.Selections[sel]; found {
			if fn, isFn := selInfo.Obj().(*types.Func); isFn && fn.Pkg() != nil && fn.Pkg().Path() == "sync" {
				isMu = true
			}
		}
	}
	if !isMu {
		return nil
	}
	if !r.guardLock(sel.X) {
		// every release goes through the runtime: a task that is killed while
		// it waits in Lock unwinds through its deferred Unlock without
		// holding the mutex, which must not reach sync.Mutex
		r.stats["unlock_rewrites"]++
		return r.call("Unlock", &ast.SelectorExpr{X: sel.X, Sel: ast.NewIdent(sel.Sel.Name)})
	}
	r.stats["guard_unlocks"]++
	return r.call("UnlockG", &ast.SelectorExpr{X: sel.X, Sel: ast.NewIdent(sel.Sel.Name)}, &ast.UnaryExpr{Op: token.AND, X: sel.X})
}

func (r *rewriter) instrument(f *ast.File) {
	for _, d := range f.Decls {
		fd, ok := d.(*ast.FuncDecl)
		if !ok || fd.Body == nil {
			continue
		}
		r.fn = fd.Name.Name
		r.n = 0
		r.block(fd.Body)
	}
}

// block rewrites a statement list in place, recursing into nested statements
// and function literals.
func (r *rewriter) block(b *ast.BlockStmt) {
	if b == nil {
		return
	}
	b.List = r.stmts(b.List)
}

func (r *rewriter) stmts(list []ast.Stmt) []ast.Stmt {
	var out []ast.Stmt
	for _, s := range list {
		out = append(out, r.guardAsserts(s)...)
		out = append(out, r.stmt(s)...)
	}
	return out
}

// guardLockName says whether e is `<x>.<lock>` for a configured guard.
func (r *rewriter) guardLock(e ast.Expr) bool {
	sel, ok := e.(*ast.SelectorExpr)
	if !ok {
		return false
	}
	for _, g := range r.guards {
		if sel.Sel.Name == g.Lock {
			return true
		}
	}
	return false
}

// guardAsserts returns `simrt.AssertHeld(name, &recv.lock)` statements for the
// guarded fields statement s touches in its own expressions (the bodies of
// compound statements are handled when their statements are visited).
func (r *rewriter) guardAsserts(s ast.Stmt) []ast.Stmt {
	if len(r.guards) == 0 {
		return nil
	}
	var roots []ast.Node
	switch x := s.(type) {
	case *ast.ExprStmt, *ast.AssignStmt, *ast.DeclStmt, *ast.IncDecStmt, *ast.ReturnStmt, *ast.SendStmt:
		roots = []ast.Node{x}
	case *ast.IfStmt:
		if x.Init != nil {
			roots = append(roots, x.Init)
		}
		roots = append(roots, x.Cond)
	case *ast.ForStmt:
		for _, n := range []ast.Node{x.Init, x.Cond, x.Post} {
			if n != nil && !isNilNode(n) {
				roots = append(roots, n)
			}
		}
	case *ast.RangeStmt:
		roots = []ast.Node{x.X}
	case *ast.SwitchStmt:
		if x.Init != nil {
			roots = append(roots, x.Init)
		}
		if x.Tag != nil {
			roots = append(roots, x.Tag)
		}
	default:
		return nil
	}
	var out []ast.Stmt
	seen := map[string]bool{}
	for _, root := range roots {
		ast.Inspect(root, func(n ast.Node) bool {
			if _, isLit := n.(*ast.FuncLit); isLit {
				return false
			}
			sel, ok := n.(*ast.SelectorExpr)
			if !ok {
				return true
			}
			for _, g := range r.guards {
				if sel.Sel.Name != g.Field {
					continue
				}
				// the receiver must be a struct (pointer) that also has the lock field
				if !r.hasField(sel.X, g.Lock) {
					continue
				}
				var buf bytes.Buffer
				printer.Fprint(&buf, r.fset, sel.X)
				key := buf.String() + "." + g.Lock
				if seen[key] {
					continue
				}
				seen[key] = true
				r.stats["guard_asserts"]++
				lock := &ast.UnaryExpr{Op: token.AND, X: &ast.SelectorExpr{X: sel.X, Sel: ast.NewIdent(g.Lock)}}
				out = append(out, &ast.ExprStmt{X: r.call("AssertHeld", &ast.BasicLit{Kind: token.STRING, Value: strconv.Quote(g.Name)}, lock)})
			}
			return true
		})
	}
	return out
}

func isNilNode(n ast.Node) bool {
	switch x := n.(type) {
	case ast.Stmt:
		return x == nil
	case ast.Expr:
		return x == nil
	}
	return false
}

func (r *rewriter) hasField(e ast.Expr, name string) bool {
	t := r.typeOf(e)
	if t == nil {
		return false
	}
	if p, ok := t.Underlying().(*types.Pointer); ok {
		t = p.Elem()
	}
	st, ok := t.Underlying().(*types.Struct)
	if !ok {
		return false
	}
	for i := 0; i < st.NumFields(); i++ {
		if st.Field(i).Name() == name {
			return true
		}
	}
	return false
}

func (r *rewriter) funcLits(n ast.Node) {
	ast.Inspect(n, func(x ast.Node) bool {
		if fl, ok := x.(*ast.FuncLit); ok {
			r.block(fl.Body)
			return false
		}
		return true
	})
}

func (r *rewriter) stmt(s ast.Stmt) []ast.Stmt {
	switch x := s.(type) {
	case *ast.LabeledStmt:
		if _, isSel := x.Stmt.(*ast.SelectStmt); isSel {
			die("labeled select in %s:%s is not supported by the rewriter", r.file, r.fn)
		}
		inner := r.stmt(x.Stmt)
		// keep the label on the (last) real statement; prepend the rest
		if len(inner) == 1 {
			x.Stmt = inner[0]
			return []ast.Stmt{x}
		}
		// find the original statement in inner (loops/selects stay single)
		for i, st := range inner {
			switch st.(type) {
			case *ast.ForStmt, *ast.RangeStmt, *ast.SelectStmt, *ast.SwitchStmt, *ast.TypeSwitchStmt:
				x.Stmt = st
				res := append([]ast.Stmt{}, inner[:i]...)
				res = append(res, x)
				res = append(res, inner[i+1:]...)
				return res
			}
		}
		x.Stmt = &ast.BlockStmt{List: inner}
		return []ast.Stmt{x}
	case *ast.BlockStmt:
		r.block(x)
		return []ast.Stmt{x}
	case *ast.IfStmt:
		var pre []ast.Stmt
		if x.Init != nil {
			r.funcLits(x.Init)
			if si := r.classifyExpr(x.Init); si.pre != "" {
				pre = append(pre, r.yield(si.pre))
			}
		}
		r.funcLits(x.Cond)
		if si := r.classifyExpr(x.Cond); si.pre != "" && len(pre) == 0 {
			pre = append(pre, r.yield(si.pre))
		}
		r.block(x.Body)
		if x.Else != nil {
			el := r.stmt(x.Else)
			if len(el) == 1 {
				x.Else = el[0]
			} else {
				x.Else = &ast.BlockStmt{List: el}
			}
		}
		return append(pre, x)
	case *ast.ForStmt:
		if x.Init != nil {
			r.funcLits(x.Init)
		}
		if x.Cond != nil {
			r.funcLits(x.Cond)
		}
		r.block(x.Body)
		return []ast.Stmt{x}
	case *ast.RangeStmt:
		r.funcLits(x.X)
		r.block(x.Body)
		if t := r.typeOf(x.X); t != nil {
			if _, ok := t.Underlying().(*types.Chan); ok {
				// every iteration is a blocking receive
				x.Body.List = append([]ast.Stmt{r.yield("rangerecv")}, x.Body.List...)
				return []ast.Stmt{r.yield("rangechan"), x, r.yield("rangedone")}
			}
		}
		return []ast.Stmt{x}
	case *ast.SwitchStmt:
		if x.Init != nil {
			r.funcLits(x.Init)
		}
		if x.Tag != nil {
			r.funcLits(x.Tag)
		}
		for _, c := range x.Body.List {
			cc := c.(*ast.CaseClause)
			cc.Body = r.stmts(cc.Body)
		}
		return []ast.Stmt{x}
	case *ast.TypeSwitchStmt:
		for _, c := range x.Body.List {
			cc := c.(*ast.CaseClause)
			cc.Body = r.stmts(cc.Body)
		}
		return []ast.Stmt{x}
	case *ast.SelectStmt:
		return r.selectStmt(x)
	case *ast.SendStmt:
		r.funcLits(x)
		r.stats["send_rewrites"]++
		return []ast.Stmt{r.yield("send"), &ast.ExprStmt{X: r.call("SendOrExit", x.Chan, x.Value)}, r.yield("sent")}
	case *ast.GoStmt:
		return r.goStmt(x)
	case *ast.DeferStmt:
		if ce := r.guardUnlock(x.Call); ce != nil {
			x.Call = ce
			return []ast.Stmt{x}
		}
		r.funcLits(x.Call)
		return []ast.Stmt{x}
	case *ast.ExprStmt:
		if recv, try, ok := r.lockCall(x); ok {
			r.stats["lock_rewrites"]++
			if r.guardLock(recv) {
				return []ast.Stmt{&ast.ExprStmt{X: r.call("LockG", r.site("lock"), &ast.SelectorExpr{X: recv, Sel: ast.NewIdent(try)}, &ast.UnaryExpr{Op: token.AND, X: recv})}}
			}
			return []ast.Stmt{&ast.ExprStmt{X: r.call("Lock", r.site("lock"), &ast.SelectorExpr{X: recv, Sel: ast.NewIdent(try)})}}
		}
		if ce := r.guardUnlock(x.X); ce != nil {
			return []ast.Stmt{&ast.ExprStmt{X: ce}}
		}
		r.funcLits(x)
		if u, ok := x.X.(*ast.UnaryExpr); ok && u.Op == token.ARROW {
			r.stats["recv_rewrites"]++
			return r.wrapSync(&ast.ExprStmt{X: r.call("RecvOrExit", u.X)}, x)
		}
		return r.wrapSync(x, x)
	case *ast.AssignStmt:
		r.funcLits(x)
		if len(x.Rhs) == 1 {
			if u, ok := x.Rhs[0].(*ast.UnaryExpr); ok && u.Op == token.ARROW {
				si := r.classifyExpr(x)
				r.stats["recv_rewrites"]++
				fn := "RecvOrExit"
				if len(x.Lhs) == 2 {
					fn = "RecvOrExit2"
				}
				x.Rhs[0] = r.call(fn, u.X)
				out := []ast.Stmt{r.yield(si.pre), x}
				if si.post {
					out = append(out, r.yield(si.pre+"-woke"))
				}
				return out
			}
		}
		return r.wrapSync(x, x)
	case *ast.DeclStmt:
		r.funcLits(x)
		return r.wrapSync(x, x)
	case *ast.IncDecStmt:
		return []ast.Stmt{x}
	case *ast.ReturnStmt:
		r.funcLits(x)
		si := r.classifyExpr(x)
		if si.pre != "" {
			return []ast.Stmt{r.yield(si.pre), x}
		}
		return []ast.Stmt{x}
	default:
		return []ast.Stmt{s}
	}
}

// selectStmt makes the choice among several ready communications a tape
// decision instead of the runtime's pseudo-random one: channel operands are
// evaluated once, the cases are probed without blocking in a tape-chosen
// order, and only if none is ready the goroutine blocks in a select that
// records which case fired. The original bodies run in a switch afterwards,
// so break/continue/return keep their meaning.
func (r *rewriter) selectStmt(x *ast.SelectStmt) []ast.Stmt {
	r.stats["select_rewrites"]++
	r.tmp++
	id := r.tmp
	nm := func(p string, i int) *ast.Ident { return ast.NewIdent(fmt.Sprintf("_sim%s%d_%d", p, id, i)) }
	sel := ast.NewIdent(fmt.Sprintf("_simsel%d", id))
	lit := func(i int) ast.Expr { return &ast.BasicLit{Kind: token.INT, Value: strconv.Itoa(i)} }
	assign := func(tok token.Token, lhs []ast.Expr, rhs ...ast.Expr) ast.Stmt {
		return &ast.AssignStmt{Lhs: lhs, Tok: tok, Rhs: rhs}
	}
	out := []ast.Stmt{r.yield("select")}
	out = append(out, assign(token.DEFINE, []ast.Expr{sel}, &ast.UnaryExpr{Op: token.SUB, X: lit(1)}))
	var probeCases, blockCases, bodyCases []ast.Stmt
	hasDefault := false
	n := 0
	for _, c := range x.Body.List {
		cc := c.(*ast.CommClause)
		if cc.Comm != nil {
			n++
		}
	}
	idx := 0
	for _, c := range x.Body.List {
		cc := c.(*ast.CommClause)
		body := r.stmts(cc.Body)
		if cc.Comm == nil {
			hasDefault = true
			bodyCases = append(bodyCases, &ast.CaseClause{List: []ast.Expr{lit(n)}, Body: body})
			continue
		}
		i := idx
		idx++
		ch := nm("c", i)
		switch comm := cc.Comm.(type) {
		case *ast.SendStmt:
			val := nm("s", i)
			out = append(out, assign(token.DEFINE, []ast.Expr{ch}, comm.Chan), assign(token.DEFINE, []ast.Expr{val}, comm.Value))
			probeCases = append(probeCases, &ast.CaseClause{List: []ast.Expr{lit(i)}, Body: []ast.Stmt{
				&ast.IfStmt{Cond: r.call("TrySend", ch, val), Body: &ast.BlockStmt{List: []ast.Stmt{assign(token.ASSIGN, []ast.Expr{sel}, lit(i))}}},
			}})
			blockCases = append(blockCases, &ast.CommClause{Comm: &ast.SendStmt{Chan: ch, Value: val}, Body: []ast.Stmt{assign(token.ASSIGN, []ast.Expr{sel}, lit(i))}})
			bodyCases = append(bodyCases, &ast.CaseClause{List: []ast.Expr{lit(i)}, Body: body})
		default:
			// receive forms: ExprStmt(<-c), AssignStmt(x [,ok] :=/= <-c)
			var recv *ast.UnaryExpr
			var lhs []ast.Expr
			tok := token.ILLEGAL
			switch cm := comm.(type) {
			case *ast.ExprStmt:
				recv, _ = cm.X.(*ast.UnaryExpr)
			case *ast.AssignStmt:
				recv, _ = cm.Rhs[0].(*ast.UnaryExpr)
				lhs, tok = cm.Lhs, cm.Tok
			}
			if recv == nil || recv.Op != token.ARROW {
				die("unsupported select communication in %s:%s", r.file, r.fn)
			}
			v, ok, got := nm("v", i), nm("ok", i), nm("g", i)
			out = append(out,
				assign(token.DEFINE, []ast.Expr{ch}, recv.X),
				assign(token.DEFINE, []ast.Expr{v}, r.call("ZeroOf", ch)),
				assign(token.DEFINE, []ast.Expr{ok}, ast.NewIdent("false")),
				assign(token.ASSIGN, []ast.Expr{ast.NewIdent("_"), ast.NewIdent("_")}, v, ok),
			)
			probeCases = append(probeCases, &ast.CaseClause{List: []ast.Expr{lit(i)}, Body: []ast.Stmt{
				&ast.DeclStmt{Decl: &ast.GenDecl{Tok: token.VAR, Specs: []ast.Spec{&ast.ValueSpec{Names: []*ast.Ident{got}, Type: ast.NewIdent("bool")}}}},
				assign(token.ASSIGN, []ast.Expr{v, ok, got}, r.call("TryRecv", ch)),
				&ast.IfStmt{Cond: got, Body: &ast.BlockStmt{List: []ast.Stmt{assign(token.ASSIGN, []ast.Expr{sel}, lit(i))}}},
			}})
			blockCases = append(blockCases, &ast.CommClause{
				Comm: assign(token.ASSIGN, []ast.Expr{v, ok}, &ast.UnaryExpr{Op: token.ARROW, X: ch}),
				Body: []ast.Stmt{assign(token.ASSIGN, []ast.Expr{sel}, lit(i))}})
			var pro []ast.Stmt
			switch len(lhs) {
			case 1:
				pro = append(pro, assign(tok, lhs, v))
			case 2:
				pro = append(pro, assign(tok, lhs, v, ok))
			}
			if tok == token.DEFINE {
				for _, l := range lhs {
					if idn, isId := l.(*ast.Ident); isId && idn.Name != "_" {
						pro = append(pro, assign(token.ASSIGN, []ast.Expr{ast.NewIdent("_")}, l))
					}
				}
			}
			bodyCases = append(bodyCases, &ast.CaseClause{List: []ast.Expr{lit(i)}, Body: append(pro, body...)})
		}
	}
	// probe loop
	iv := ast.NewIdent(fmt.Sprintf("_simi%d", id))
	if n > 0 {
		loop := &ast.RangeStmt{Key: ast.NewIdent("_"), Value: iv, Tok: token.DEFINE, X: r.call("SelectOrder", r.site("selorder"), lit(n)),
			Body: &ast.BlockStmt{List: []ast.Stmt{
				&ast.SwitchStmt{Tag: iv, Body: &ast.BlockStmt{List: probeCases}},
				&ast.IfStmt{Cond: &ast.BinaryExpr{X: sel, Op: token.GEQ, Y: lit(0)}, Body: &ast.BlockStmt{List: []ast.Stmt{&ast.BranchStmt{Tok: token.BREAK}}}},
			}}}
		out = append(out, loop)
	}
	var fallback []ast.Stmt
	if hasDefault {
		fallback = []ast.Stmt{assign(token.ASSIGN, []ast.Expr{sel}, lit(n))}
	} else {
		// (one more case: the end of the run, see simrt.Done)
		blockCases = append(blockCases, &ast.CommClause{
			Comm: &ast.ExprStmt{X: &ast.UnaryExpr{Op: token.ARROW, X: r.call("Done")}},
			Body: []ast.Stmt{&ast.ExprStmt{X: r.call("ExitShutdown")}}})
		fallback = []ast.Stmt{&ast.SelectStmt{Body: &ast.BlockStmt{List: blockCases}}}
	}
	out = append(out, &ast.IfStmt{Cond: &ast.BinaryExpr{X: sel, Op: token.LSS, Y: lit(0)}, Body: &ast.BlockStmt{List: fallback}})
	out = append(out, r.yield("selected"))
	// a default that panics keeps the switch a terminating statement whenever
	// the original select was one
	bodyCases = append(bodyCases, &ast.CaseClause{Body: []ast.Stmt{&ast.ExprStmt{X: &ast.CallExpr{Fun: ast.NewIdent("panic"), Args: []ast.Expr{&ast.BasicLit{Kind: token.STRING, Value: strconv.Quote("simrt: impossible select index")}}}}}})
	out = append(out, &ast.SwitchStmt{Tag: sel, Body: &ast.BlockStmt{List: bodyCases}})
	return out
}

func (r *rewriter) wrapSync(s ast.Stmt, n ast.Node) []ast.Stmt {
	si := r.classifyExpr(n)
	if si.pre == "" {
		return []ast.Stmt{s}
	}
	out := []ast.Stmt{r.yield(si.pre), s}
	if si.post {
		out = append(out, r.yield(si.pre+"-woke"))
	}
	return out
}

func (r *rewriter) goStmt(g *ast.GoStmt) []ast.Stmt {
	r.stats["go_rewrites"]++
	call := g.Call
	if fl, ok := call.Fun.(*ast.FuncLit); ok && len(call.Args) == 0 {
		r.block(fl.Body)
		return []ast.Stmt{&ast.ExprStmt{X: r.call("Go", r.site("go"), fl)}}
	}
	r.funcLits(call)
	// evaluate function value and arguments now, run the call in the task
	var pre []ast.Stmt
	var args []ast.Expr
	for _, a := range call.Args {
		r.tmp++
		id := ast.NewIdent(fmt.Sprintf("_simarg%d", r.tmp))
		pre = append(pre, &ast.AssignStmt{Lhs: []ast.Expr{id}, Tok: token.DEFINE, Rhs: []ast.Expr{a}})
		args = append(args, id)
	}
	fun := call.Fun
	if _, isLit := fun.(*ast.FuncLit); isLit {
		r.tmp++
		id := ast.NewIdent(fmt.Sprintf("_simfn%d", r.tmp))
		pre = append(pre, &ast.AssignStmt{Lhs: []ast.Expr{id}, Tok: token.DEFINE, Rhs: []ast.Expr{fun}})
		fun = id
	}
	inner := &ast.CallExpr{Fun: fun, Args: args, Ellipsis: call.Ellipsis}
	lit := &ast.FuncLit{Type: &ast.FuncType{Params: &ast.FieldList{}}, Body: &ast.BlockStmt{List: []ast.Stmt{&ast.ExprStmt{X: inner}}}}
	st := &ast.ExprStmt{X: r.call("Go", r.site("go"), lit)}
	if len(pre) == 0 {
		return []ast.Stmt{st}
	}
	return []ast.Stmt{&ast.BlockStmt{List: append(pre, st)}}
}

// ---------------------------------------------------------------- map range

// mapRange rewrites `for k, v := range m` over maps into iteration over
// simrt.SortedKeys(m) so that the order is a function of the keys only.
func (r *rewriter) mapRange(f *ast.File) {
	ast.Inspect(f, func(n ast.Node) bool {
		switch x := n.(type) {
		case *ast.BlockStmt:
			x.List = r.mapRangeList(x.List)
		case *ast.CaseClause:
			x.Body = r.mapRangeList(x.Body)
		case *ast.CommClause:
			x.Body = r.mapRangeList(x.Body)
		}
		return true
	})
}

func simpleExpr(e ast.Expr) bool {
	switch x := e.(type) {
	case *ast.Ident:
		return true
	case *ast.SelectorExpr:
		return simpleExpr(x.X)
	case *ast.StarExpr:
		return simpleExpr(x.X)
	case *ast.ParenExpr:
		return simpleExpr(x.X)
	}
	return false
}

func (r *rewriter) mapRangeList(list []ast.Stmt) []ast.Stmt {
	var out []ast.Stmt
	for _, s := range list {
		target := s
		var lbl *ast.LabeledStmt
		if l, ok := s.(*ast.LabeledStmt); ok {
			lbl = l
			target = l.Stmt
		}
		rs, ok := target.(*ast.RangeStmt)
		if !ok {
			out = append(out, s)
			continue
		}
		t := r.typeOf(rs.X)
		if t == nil {
			out = append(out, s)
			continue
		}
		if _, isMap := t.Underlying().(*types.Map); !isMap {
			out = append(out, s)
			continue
		}
		r.stats["maprange_rewrites"]++
		m := rs.X
		if !simpleExpr(m) {
			r.tmp++
			id := ast.NewIdent(fmt.Sprintf("_simmap%d", r.tmp))
			out = append(out, &ast.AssignStmt{Lhs: []ast.Expr{id}, Tok: token.DEFINE, Rhs: []ast.Expr{m}})
			m = id
		}
		isBlank := func(e ast.Expr) bool {
			if e == nil {
				return true
			}
			id, ok := e.(*ast.Ident)
			return ok && id.Name == "_"
		}
		r.tmp++
		kid := ast.NewIdent(fmt.Sprintf("_simkey%d", r.tmp))
		var prologue []ast.Stmt
		// presence check (an entry deleted during iteration is not produced)
		okid := ast.NewIdent(fmt.Sprintf("_simok%d", r.tmp))
		vid := ast.NewIdent(fmt.Sprintf("_simval%d", r.tmp))
		prologue = append(prologue,
			&ast.AssignStmt{Lhs: []ast.Expr{vid, okid}, Tok: token.DEFINE, Rhs: []ast.Expr{&ast.IndexExpr{X: m, Index: kid}}},
			&ast.IfStmt{Cond: &ast.UnaryExpr{Op: token.NOT, X: okid}, Body: &ast.BlockStmt{List: []ast.Stmt{&ast.BranchStmt{Tok: token.CONTINUE}}}},
			&ast.AssignStmt{Lhs: []ast.Expr{ast.NewIdent("_")}, Tok: token.ASSIGN, Rhs: []ast.Expr{vid}},
		)
		tok := rs.Tok
		if tok == token.ILLEGAL {
			tok = token.DEFINE
		}
		if !isBlank(rs.Key) {
			prologue = append(prologue, &ast.AssignStmt{Lhs: []ast.Expr{rs.Key}, Tok: tok, Rhs: []ast.Expr{kid}})
			if tok == token.DEFINE {
				prologue = append(prologue, &ast.AssignStmt{Lhs: []ast.Expr{ast.NewIdent("_")}, Tok: token.ASSIGN, Rhs: []ast.Expr{rs.Key}})
			}
		}
		if !isBlank(rs.Value) {
			prologue = append(prologue, &ast.AssignStmt{Lhs: []ast.Expr{rs.Value}, Tok: tok, Rhs: []ast.Expr{vid}})
			if tok == token.DEFINE {
				prologue = append(prologue, &ast.AssignStmt{Lhs: []ast.Expr{ast.NewIdent("_")}, Tok: token.ASSIGN, Rhs: []ast.Expr{rs.Value}})
			}
		}
		nrs := &ast.RangeStmt{
			Key: ast.NewIdent("_"), Value: kid, Tok: token.DEFINE,
			X:    r.call("SortedKeys", m),
			Body: &ast.BlockStmt{List: append(prologue, rs.Body.List...)},
		}
		if lbl != nil {
			lbl.Stmt = nrs
			out = append(out, lbl)
		} else {
			out = append(out, nrs)
		}
	}
	return out
}
