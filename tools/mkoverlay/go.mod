module verif/mkoverlay

go 1.23
