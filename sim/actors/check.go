package actors

import (
	"context"
	"fmt"
	"sync"

	"github.com/emersion/go-message/textproto"
	"github.com/emersion/go-msgauth/authres"
	"github.com/foxcpp/maddy/framework/buffer"
	"github.com/foxcpp/maddy/framework/config"
	"github.com/foxcpp/maddy/framework/exterrors"
	"github.com/foxcpp/maddy/framework/module"
	"github.com/foxcpp/maddy/internal/verifsim/simrt"
)

// Verdict of a scripted check at one stage.
type Verdict int

const (
	VNone Verdict = iota
	VIgnore
	VQuarantine
	VRejectPerm
	VRejectTemp
)

func (v Verdict) String() string {
	return [...]string{"none", "ignore", "quarantine", "reject", "reject-temp"}[v]
}
func (v Verdict) Rejects() bool { return v == VRejectPerm || v == VRejectTemp }

// CheckPlan: what a scripted check says for one message.
type CheckPlan struct {
	StateErr Outcome // failure of CheckStateForMsg itself
	Conn     Verdict
	Sender   Verdict
	Rcpt     map[string]Verdict
	Body     Verdict
	// BodyAuth: authentication results attached to the body-stage result
	// (input of the DMARC evaluation)
	BodyAuth []authres.Result
}

// CheckCall is one observed call.
type CheckCall struct {
	Tag     string // msgMeta.OriginalFrom: lets a world tell messages apart
	MsgID   string
	Stage   string // conn, sender, rcpt, body, close, state
	Arg     string
	Verdict Verdict
	Step    int
	StateN  int // which state object of this check (1-based)
}

// ScriptedCheck implements module.Check (and module.Module).
type ScriptedCheck struct {
	Label   string
	PlanFor func(msgMeta *module.MsgMetadata) *CheckPlan
	mu      sync.Mutex
	Calls   []CheckCall
	Opened  int
	Closed  int
}

func (c *ScriptedCheck) Init(*config.Map) error { return nil }
func (c *ScriptedCheck) Name() string           { return "scripted_check" }
func (c *ScriptedCheck) InstanceName() string   { return c.Label }
func (c *ScriptedCheck) SimLabel() string       { return c.Label }

// Log records a call observed by code outside this package (a world that
// wraps a real check implementation around scripted verdicts).
func (c *ScriptedCheck) Log(call CheckCall) { c.log(call) }

func (c *ScriptedCheck) log(call CheckCall) {
	c.mu.Lock()
	if s := simrt.Cur(); s != nil {
		call.Step = s.Steps()
	}
	c.Calls = append(c.Calls, call)
	c.mu.Unlock()
	if s := simrt.Cur(); s != nil {
		s.Logf("check %s %s(%q) -> %v", c.Label, call.Stage, call.Arg, call.Verdict)
		if call.Verdict != VNone {
			s.Stat("fault_check_" + call.Stage + "_" + call.Verdict.String())
		}
	}
}

// CallsFor returns the calls observed for one message id.
func (c *ScriptedCheck) CallsFor(id string) []CheckCall {
	c.mu.Lock()
	defer c.mu.Unlock()
	var out []CheckCall
	for _, x := range c.Calls {
		if x.MsgID == id {
			out = append(out, x)
		}
	}
	return out
}

func (c *ScriptedCheck) CheckStateForMsg(ctx context.Context, msgMeta *module.MsgMetadata) (module.CheckState, error) {
	simrt.Point("chk:"+c.Label, "state")
	plan := &CheckPlan{}
	if c.PlanFor != nil {
		if p := c.PlanFor(msgMeta); p != nil {
			plan = p
		}
	}
	if plan.StateErr != OK {
		c.log(CheckCall{Tag: msgMeta.OriginalFrom, MsgID: msgMeta.ID, Stage: "state", Verdict: VRejectPerm})
		return nil, MkErr(plan.StateErr, 0, "check state "+c.Label)
	}
	c.mu.Lock()
	c.Opened++
	c.mu.Unlock()
	c.mu.Lock()
	n := c.Opened
	c.mu.Unlock()
	return &scriptedCheckState{c: c, plan: plan, id: msgMeta.ID, tag: msgMeta.OriginalFrom, n: n}, nil
}

type scriptedCheckState struct {
	c      *ScriptedCheck
	plan   *CheckPlan
	id     string
	tag    string
	n      int
	closed bool
}

func (st *scriptedCheckState) result(v Verdict, stage string) module.CheckResult {
	mk := func(code int, ec exterrors.EnhancedCode) error {
		return &exterrors.SMTPError{Code: code, EnhancedCode: ec, Message: fmt.Sprintf("scripted check %s says no (нет) at %s", st.c.Label, stage), CheckName: st.c.Label}
	}
	switch v {
	case VIgnore:
		return module.CheckResult{Reason: mk(550, exterrors.EnhancedCode{5, 7, 1})}
	case VQuarantine:
		return module.CheckResult{Quarantine: true, Reason: mk(550, exterrors.EnhancedCode{5, 7, 1})}
	case VRejectPerm:
		return module.CheckResult{Reject: true, Reason: mk(550, exterrors.EnhancedCode{5, 7, 1})}
	case VRejectTemp:
		return module.CheckResult{Reject: true, Reason: mk(451, exterrors.EnhancedCode{4, 7, 1})}
	}
	return module.CheckResult{}
}

func (st *scriptedCheckState) CheckConnection(ctx context.Context) module.CheckResult {
	simrt.Point("chk:"+st.c.Label, "conn")
	st.c.log(CheckCall{StateN: st.n, Tag: st.tag, MsgID: st.id, Stage: "conn", Verdict: st.plan.Conn})
	return st.result(st.plan.Conn, "conn")
}

func (st *scriptedCheckState) CheckSender(ctx context.Context, mailFrom string) module.CheckResult {
	simrt.Point("chk:"+st.c.Label, "sender")
	st.c.log(CheckCall{StateN: st.n, Tag: st.tag, MsgID: st.id, Stage: "sender", Arg: mailFrom, Verdict: st.plan.Sender})
	return st.result(st.plan.Sender, "sender")
}

func (st *scriptedCheckState) CheckRcpt(ctx context.Context, rcptTo string) module.CheckResult {
	simrt.Point("chk:"+st.c.Label, "rcpt:"+rcptTo)
	v := st.plan.Rcpt[rcptTo]
	st.c.log(CheckCall{StateN: st.n, Tag: st.tag, MsgID: st.id, Stage: "rcpt", Arg: rcptTo, Verdict: v})
	return st.result(v, "rcpt")
}

func (st *scriptedCheckState) CheckBody(ctx context.Context, header textproto.Header, body buffer.Buffer) module.CheckResult {
	simrt.Point("chk:"+st.c.Label, "body")
	st.c.log(CheckCall{StateN: st.n, Tag: st.tag, MsgID: st.id, Stage: "body", Verdict: st.plan.Body})
	res := st.result(st.plan.Body, "body")
	res.AuthResult = st.plan.BodyAuth
	return res
}

func (st *scriptedCheckState) Close() error {
	st.c.mu.Lock()
	st.c.Closed++
	st.c.mu.Unlock()
	st.c.log(CheckCall{StateN: st.n, Tag: st.tag, MsgID: st.id, Stage: "close"})
	st.closed = true
	return nil
}

// ---------------------------------------------------------------- modifier

// ModPlan: what a scripted modifier does for one message.
type ModPlan struct {
	StateErr  Outcome
	SenderErr Outcome
	RcptErr   map[string]Outcome
	BodyErr   Outcome
	// Rewrite maps a recipient to its replacements (1 -> N); missing = identity.
	Rewrite map[string][]string
	// AddHeader is added at RewriteBody when non-empty.
	AddHeader string
}

type ScriptedModifier struct {
	Label   string
	PlanFor func(msgMeta *module.MsgMetadata) *ModPlan
	mu      sync.Mutex
	Opened  int
	Closed  int
}

func (m *ScriptedModifier) Init(*config.Map) error { return nil }
func (m *ScriptedModifier) Name() string           { return "scripted_modifier" }
func (m *ScriptedModifier) InstanceName() string   { return m.Label }
func (m *ScriptedModifier) SimLabel() string       { return m.Label }

func (m *ScriptedModifier) ModStateForMsg(ctx context.Context, msgMeta *module.MsgMetadata) (module.ModifierState, error) {
	simrt.Point("mod:"+m.Label, "state")
	plan := &ModPlan{}
	if m.PlanFor != nil {
		if p := m.PlanFor(msgMeta); p != nil {
			plan = p
		}
	}
	if plan.StateErr != OK {
		if s := simrt.Cur(); s != nil {
			s.Stat("fault_mod_state_" + plan.StateErr.String())
		}
		return nil, MkErr(plan.StateErr, 0, "modifier state "+m.Label)
	}
	m.mu.Lock()
	m.Opened++
	m.mu.Unlock()
	return &scriptedModState{m: m, plan: plan}, nil
}

type scriptedModState struct {
	m    *ScriptedModifier
	plan *ModPlan
}

func (st *scriptedModState) RewriteSender(ctx context.Context, mailFrom string) (string, error) {
	simrt.Point("mod:"+st.m.Label, "sender")
	if st.plan.SenderErr != OK {
		if s := simrt.Cur(); s != nil {
			s.Stat("fault_mod_sender_" + st.plan.SenderErr.String())
		}
		return "", MkErr(st.plan.SenderErr, 0, "modifier sender "+st.m.Label)
	}
	return mailFrom, nil
}

func (st *scriptedModState) RewriteRcpt(ctx context.Context, rcptTo string) ([]string, error) {
	simrt.Point("mod:"+st.m.Label, "rcpt:"+rcptTo)
	if o := st.plan.RcptErr[rcptTo]; o != OK {
		if s := simrt.Cur(); s != nil {
			s.Stat("fault_mod_rcpt_" + o.String())
		}
		return nil, MkErr(o, 0, "modifier rcpt "+st.m.Label)
	}
	if r, ok := st.plan.Rewrite[rcptTo]; ok {
		if s := simrt.Cur(); s != nil {
			s.Logf("modifier %s rewrites %q -> %v", st.m.Label, rcptTo, r)
			s.Stat("rcpt_rewritten")
		}
		return append([]string(nil), r...), nil
	}
	return []string{rcptTo}, nil
}

func (st *scriptedModState) RewriteBody(ctx context.Context, h *textproto.Header, body buffer.Buffer) error {
	simrt.Point("mod:"+st.m.Label, "body")
	if st.plan.BodyErr != OK {
		if s := simrt.Cur(); s != nil {
			s.Stat("fault_mod_body_" + st.plan.BodyErr.String())
		}
		return MkErr(st.plan.BodyErr, 0, "modifier body "+st.m.Label)
	}
	if st.plan.AddHeader != "" {
		h.Add("X-Sim-Modified", st.plan.AddHeader)
	}
	return nil
}

func (st *scriptedModState) Close() error {
	st.m.mu.Lock()
	st.m.Closed++
	st.m.mu.Unlock()
	return nil
}
