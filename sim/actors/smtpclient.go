package actors

import (
	"bufio"
	"fmt"
	"net"
	"regexp"
	"strconv"
	"strings"
	"time"

	"github.com/foxcpp/maddy/internal/verifsim/simrt"
)

// Reply is one SMTP reply as seen by the scripted client.
type Reply struct {
	Code  int
	Enh   string // "5.1.1" or ""
	Lines []string
	Err   string // transport error instead of a reply
}

func (r Reply) OK() bool       { return r.Err == "" && r.Code/100 == 2 }
func (r Reply) Positive() bool { return r.Err == "" && (r.Code/100 == 2 || r.Code/100 == 3) }
func (r Reply) String() string {
	if r.Err != "" {
		return "ERR(" + r.Err + ")"
	}
	return fmt.Sprintf("%d %s %s", r.Code, r.Enh, strings.Join(r.Lines, " | "))
}

// message identifiers are random (crypto/rand); they are scrubbed from the
// event log
var msgIDRe = regexp.MustCompile(`\(msg ID = [0-9a-f]+\)`)

// SMTPClient is a line-level client that can send anything.
type SMTPClient struct {
	Name string
	Conn net.Conn
	br   *bufio.Reader
	// Log of everything sent/received, for traces.
	Replies []Reply
}

func NewSMTPClient(name string, c net.Conn) *SMTPClient {
	return &SMTPClient{Name: name, Conn: c, br: bufio.NewReader(c)}
}

// ReadReply reads one (possibly multi-line) reply.
func (c *SMTPClient) ReadReply() Reply {
	var r Reply
	c.Conn.SetReadDeadline(time.Now().Add(30 * time.Minute))
	for {
		line, err := c.br.ReadString('\n')
		if err != nil {
			r.Err = err.Error()
			break
		}
		line = strings.TrimRight(line, "\r\n")
		if len(line) < 3 {
			r.Err = "short reply line: " + line
			break
		}
		code, err := strconv.Atoi(line[:3])
		if err != nil {
			r.Err = "malformed reply line: " + line
			break
		}
		r.Code = code
		text := ""
		if len(line) > 4 {
			text = line[4:]
		}
		// enhanced code
		if f := strings.Fields(text); len(f) > 0 && len(f[0]) >= 5 && strings.Count(f[0], ".") == 2 && (f[0][0] == '2' || f[0][0] == '4' || f[0][0] == '5') {
			if r.Enh == "" {
				r.Enh = f[0]
			}
		}
		r.Lines = append(r.Lines, msgIDRe.ReplaceAllString(text, "(msg ID = *)"))
		if len(line) == 3 || line[3] == ' ' {
			break
		}
	}
	r.Err = msgIDRe.ReplaceAllString(r.Err, "(msg ID = *)")
	c.Replies = append(c.Replies, r)
	if s := simrt.Cur(); s != nil {
		s.Logf("%s < %s", c.Name, truncate(r.String(), 160))
	}
	return r
}

func truncate(s string, n int) string {
	if len(s) > n {
		return s[:n] + "…"
	}
	return s
}

// Send writes raw bytes.
func (c *SMTPClient) Send(b []byte) error {
	_, err := c.Conn.Write(b)
	return err
}

// Cmd sends one command line and reads the reply.
func (c *SMTPClient) Cmd(line string) Reply {
	if s := simrt.Cur(); s != nil {
		s.Logf("%s > %s", c.Name, truncate(line, 160))
	}
	if err := c.Send([]byte(line + "\r\n")); err != nil {
		r := Reply{Err: "write: " + err.Error()}
		c.Replies = append(c.Replies, r)
		return r
	}
	return c.ReadReply()
}

// DotStuff prepares a message for DATA.
func DotStuff(msg []byte) []byte {
	var out []byte
	atLineStart := true
	for _, b := range msg {
		if atLineStart && b == '.' {
			out = append(out, '.')
		}
		out = append(out, b)
		atLineStart = b == '\n'
	}
	if len(out) < 2 || string(out[len(out)-2:]) != "\r\n" {
		out = append(out, '\r', '\n')
	}
	return append(out, '.', '\r', '\n')
}
