package actors

import (
	"context"
	"fmt"
	"sort"
	"strings"
	"sync"

	"github.com/emersion/go-message/textproto"
	"github.com/emersion/go-smtp"
	"github.com/foxcpp/maddy/framework/buffer"
	"github.com/foxcpp/maddy/framework/module"
	"github.com/foxcpp/maddy/internal/verifsim/simrt"
)

// StatusMonitor wraps a real delivery target and checks the per-recipient
// result contract (C09): per BodyNonAtomic call exactly one SetStatus for every
// recipient for which AddRcpt returned nil in this transaction, under exactly
// the address given to AddRcpt, none for any other address, none after return.
type StatusMonitor struct {
	Inner module.DeliveryTarget
	Prop  string
	Label string
	// Reused reports whether the transaction runs over a connection that has
	// carried an earlier transaction (set by the world, for the signature).
	Reused func() bool

	mu    sync.Mutex
	calls []string
	ntx   int
}

func (m *StatusMonitor) Summary() []string {
	m.mu.Lock()
	defer m.mu.Unlock()
	return append([]string(nil), m.calls...)
}

func (m *StatusMonitor) Start(ctx context.Context, msgMeta *module.MsgMetadata, mailFrom string) (module.Delivery, error) {
	d, err := m.Inner.Start(ctx, msgMeta, mailFrom)
	if err != nil {
		return nil, err
	}
	m.mu.Lock()
	m.ntx++
	n := m.ntx
	m.mu.Unlock()
	md := &monDelivery{m: m, d: d, n: n}
	if _, ok := d.(module.PartialDelivery); ok {
		return &monPartial{md}, nil
	}
	return md, nil
}

type monDelivery struct {
	m        *StatusMonitor
	d        module.Delivery
	n        int
	accepted []string
}

type monPartial struct{ *monDelivery }

func (d *monDelivery) AddRcpt(ctx context.Context, to string, opts smtp.RcptOptions) error {
	err := d.d.AddRcpt(ctx, to, opts)
	if err == nil {
		d.accepted = append(d.accepted, to)
	}
	return err
}

func (d *monDelivery) Body(ctx context.Context, h textproto.Header, b buffer.Buffer) error {
	return d.d.Body(ctx, h, b)
}
func (d *monDelivery) Abort(ctx context.Context) error  { return d.d.Abort(ctx) }
func (d *monDelivery) Commit(ctx context.Context) error { return d.d.Commit(ctx) }

type monCollector struct {
	inner    module.StatusCollector
	mu       sync.Mutex
	seen     map[string]int
	order    []string
	returned bool
	late     []string
}

func (c *monCollector) SetStatus(rcpt string, err error) {
	c.mu.Lock()
	if c.returned {
		c.late = append(c.late, rcpt)
	}
	c.seen[rcpt]++
	c.order = append(c.order, rcpt)
	c.mu.Unlock()
	c.inner.SetStatus(rcpt, err)
}

func addrClassOf(r string) string {
	i := strings.LastIndex(r, "@")
	ascii := func(s string) bool {
		for j := 0; j < len(s); j++ {
			if s[j] >= 0x80 {
				return false
			}
		}
		return true
	}
	switch {
	case i < 0:
		return "other"
	case !ascii(r[:i]):
		return "utf8-local"
	case !ascii(r[i:]):
		return "idn"
	case strings.Contains(r[i:], "xn--"):
		return "alabel"
	case r != strings.ToLower(r):
		return "case"
	}
	return "ascii"
}

func (d *monPartial) BodyNonAtomic(ctx context.Context, sc module.StatusCollector, h textproto.Header, b buffer.Buffer) {
	mc := &monCollector{inner: sc, seen: map[string]int{}}
	d.d.(module.PartialDelivery).BodyNonAtomic(ctx, mc, h, b)
	mc.mu.Lock()
	mc.returned = true
	seen := map[string]int{}
	for k, v := range mc.seen {
		seen[k] = v
	}
	mc.mu.Unlock()
	s := simrt.Cur()
	reuse := "fresh"
	if d.m.Reused != nil && d.m.Reused() {
		reuse = "reused"
	}
	acc := map[string]bool{}
	for _, r := range d.accepted {
		acc[r] = true
	}
	var keys []string
	for k := range seen {
		keys = append(keys, k)
	}
	sort.Strings(keys)
	d.m.mu.Lock()
	d.m.calls = append(d.m.calls, fmt.Sprintf("tx%d accepted=%v statuses=%v", d.n, d.accepted, keys))
	d.m.mu.Unlock()
	if s == nil || d.m.Prop == "" {
		return
	}
	s.Stat("status_collector_calls")
	// (a recipient list may name an address twice: one result per acceptance)
	want := map[string]int{}
	var order []string
	for _, r := range d.accepted {
		if want[r] == 0 {
			order = append(order, r)
		}
		want[r]++
	}
	for _, r := range order {
		switch n := seen[r]; {
		case n == 0:
			s.Violate(d.m.Prop+"/status-missing/"+d.m.Label+"/"+addrClassOf(r)+"/"+reuse, "transaction %d on %s: no result reported for accepted recipient %q; reported keys: %v", d.n, d.m.Label, r, keys)
		case n < want[r]:
			s.Violate(d.m.Prop+"/status-missing/"+d.m.Label+"/repeated-recipient/"+reuse, "transaction %d on %s: recipient %q was accepted %d times but got %d result(s)", d.n, d.m.Label, r, want[r], n)
		case n > want[r]:
			s.Violate(d.m.Prop+"/status-duplicate/"+d.m.Label, "transaction %d on %s: %d results reported for %q (accepted %d time(s))", d.n, d.m.Label, n, r, want[r])
		}
	}
	for _, k := range keys {
		if !acc[k] {
			s.Violate(d.m.Prop+"/status-foreign/"+d.m.Label+"/"+reuse, "transaction %d on %s: result reported for %q which was not accepted in this transaction (accepted: %v)", d.n, d.m.Label, k, d.accepted)
		}
	}
}
