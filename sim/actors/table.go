package actors

import (
	"context"
	"errors"
	"sort"
	"sync"

	"github.com/foxcpp/maddy/framework/config"
	"github.com/foxcpp/maddy/internal/verifsim/simrt"
)

// StubTable is an in-memory module.MutableTable; every call is a simulation
// point and lookups can fail by injection.
type StubTable struct {
	Label string
	mu    sync.Mutex
	M     map[string]string
	// FailNext makes the next n lookups fail with a temporary error.
	FailNext int
	// FailWrites makes the next n SetKey/RemoveKey calls fail (nothing is changed).
	FailWrites int
	// AfterLookup, when set, runs in the caller's goroutine after a lookup has
	// read its value and before it returns (a world can let another operation
	// happen in its entirety between a lookup and what the caller does next).
	AfterLookup func(k string)
}

func (t *StubTable) Init(*config.Map) error { return nil }
func (t *StubTable) Name() string           { return "stub_table" }
func (t *StubTable) InstanceName() string   { return t.Label }
func (t *StubTable) SimLabel() string       { return t.Label }

func (t *StubTable) Lookup(ctx context.Context, k string) (string, bool, error) {
	simrt.Point("tbl:"+t.Label, "lookup")
	t.mu.Lock()
	defer t.mu.Unlock()
	if t.FailNext > 0 {
		t.FailNext--
		if s := simrt.Cur(); s != nil {
			s.Stat("fault_table_lookup_error")
		}
		return "", false, errors.New("scripted table lookup failure")
	}
	v, ok := t.M[k]
	if h := t.AfterLookup; h != nil {
		t.mu.Unlock()
		h(k)
		t.mu.Lock()
	}
	return v, ok, nil
}

func (t *StubTable) Keys() ([]string, error) {
	simrt.Point("tbl:"+t.Label, "keys")
	t.mu.Lock()
	defer t.mu.Unlock()
	var ks []string
	for k := range t.M {
		ks = append(ks, k)
	}
	sort.Strings(ks)
	return ks, nil
}

func (t *StubTable) RemoveKey(k string) error {
	simrt.Point("tbl:"+t.Label, "remove")
	t.mu.Lock()
	defer t.mu.Unlock()
	if t.FailWrites > 0 {
		t.FailWrites--
		if s := simrt.Cur(); s != nil {
			s.Stat("fault_table_write_error")
		}
		return errors.New("scripted table write failure")
	}
	delete(t.M, k)
	return nil
}

func (t *StubTable) SetKey(k, v string) error {
	simrt.Point("tbl:"+t.Label, "set")
	t.mu.Lock()
	defer t.mu.Unlock()
	if t.FailWrites > 0 {
		t.FailWrites--
		if s := simrt.Cur(); s != nil {
			s.Stat("fault_table_write_error")
		}
		return errors.New("scripted table write failure")
	}
	if t.M == nil {
		t.M = map[string]string{}
	}
	t.M[k] = v
	return nil
}
