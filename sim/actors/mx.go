package actors

import (
	"bufio"
	"crypto/ed25519"
	"crypto/rand"
	"crypto/tls"
	"crypto/x509"
	"crypto/x509/pkix"
	"fmt"
	"math/big"
	"net"
	"strings"
	"sync"
	"time"

	"github.com/foxcpp/maddy/internal/verifsim/simrt"
)

// ---------------------------------------------------------------- PKI

// PKI is a tiny certificate authority for the simulated Internet. The
// simulated clock starts at 2000-01-01, certificates are valid around it.
type PKI struct {
	CA     *x509.Certificate
	caKey  ed25519.PrivateKey
	Roots  *x509.CertPool
	mu     sync.Mutex
	cache  map[string]tls.Certificate
	serial int64
}

var (
	pkiOnce sync.Once
	pki     *PKI
)

// SharedPKI returns a process-wide PKI (key generation is the expensive part).
func SharedPKI() *PKI {
	pkiOnce.Do(func() {
		pub, priv, _ := ed25519.GenerateKey(rand.Reader)
		tmpl := &x509.Certificate{
			SerialNumber: big.NewInt(1), Subject: pkix.Name{CommonName: "Sim Root CA"},
			NotBefore: time.Date(1999, 1, 1, 0, 0, 0, 0, time.UTC), NotAfter: time.Date(2010, 1, 1, 0, 0, 0, 0, time.UTC),
			IsCA: true, BasicConstraintsValid: true, KeyUsage: x509.KeyUsageCertSign | x509.KeyUsageDigitalSignature,
		}
		der, _ := x509.CreateCertificate(rand.Reader, tmpl, tmpl, pub, priv)
		ca, _ := x509.ParseCertificate(der)
		pool := x509.NewCertPool()
		pool.AddCert(ca)
		pki = &PKI{CA: ca, caKey: priv, Roots: pool, cache: map[string]tls.Certificate{}, serial: 100}
	})
	return pki
}

// CertKind selects what a scripted server presents.
type CertKind int

const (
	CertValid CertKind = iota
	CertSelfSigned
	CertWrongName
	CertExpired
)

func (k CertKind) String() string {
	return [...]string{"valid", "self-signed", "wrong-name", "expired"}[k]
}

// Cert returns a (cached) certificate of the given kind for host.
func (p *PKI) Cert(host string, kind CertKind) tls.Certificate {
	p.mu.Lock()
	defer p.mu.Unlock()
	key := fmt.Sprintf("%s/%d", host, kind)
	if c, ok := p.cache[key]; ok {
		return c
	}
	pub, priv, _ := ed25519.GenerateKey(rand.Reader)
	p.serial++
	name := host
	if kind == CertWrongName {
		name = "other.invalid"
	}
	tmpl := &x509.Certificate{
		SerialNumber: big.NewInt(p.serial), Subject: pkix.Name{CommonName: name}, DNSNames: []string{name},
		NotBefore: time.Date(1999, 6, 1, 0, 0, 0, 0, time.UTC), NotAfter: time.Date(2005, 1, 1, 0, 0, 0, 0, time.UTC),
		KeyUsage: x509.KeyUsageDigitalSignature, ExtKeyUsage: []x509.ExtKeyUsage{x509.ExtKeyUsageServerAuth},
	}
	if kind == CertExpired {
		tmpl.NotAfter = time.Date(1999, 12, 1, 0, 0, 0, 0, time.UTC)
	}
	parent, signer := p.CA, interface{}(p.caKey)
	if kind == CertSelfSigned {
		parent, signer = tmpl, priv
	}
	der, err := x509.CreateCertificate(rand.Reader, tmpl, parent, pub, signer)
	if err != nil {
		panic(err)
	}
	c := tls.Certificate{Certificate: [][]byte{der}, PrivateKey: priv}
	p.cache[key] = c
	return c
}

// ---------------------------------------------------------------- scripted MX

// MXPlan scripts one server.
type MXPlan struct {
	LMTP       bool
	StartTLS   bool // advertise STARTTLS
	TLSFails   bool // handshake fails after STARTTLS is accepted
	Cert       CertKind
	SMTPUTF8   bool
	RequireTLS bool
	EnhCodes   bool
	// Reply plan per connection/transaction counters (index = n-th use; last repeats)
	Greeting []Outcome
	Mail     []Outcome
	Rcpt     map[string][]Outcome // per recipient (as received on the wire)
	Data     []Outcome            // reply to DATA
	Final    []Outcome            // reply after the final dot (SMTP)
	FinalPer map[string][]Outcome // LMTP per-recipient final replies
	// DropMidData (per DATA command): after 354 the server reads one line of the
	// message and then drops the connection (a peer dying mid-transfer).
	DropMidData []bool
	// DropAfterFinal: close the connection after the payload was received but
	// before the reply is sent (the "lost reply" case), for the n-th message.
	DropAfterFinal []bool
	// DropAfterStatuses (LMTP): close after sending this many per-recipient
	// statuses of the n-th message (-1 = never).
	DropAfterStatuses []int
	NonASCIIText      bool
	// Quit421: QUIT is answered with 421 and the connection stays open.
	Quit421 bool
	// Perm552: permanent rejections are sent as 552 5.2.2.
	Perm552 bool
	// IdleClose > 0: the server hangs up after this much idle time.
	IdleClose time.Duration
}

// MXTx is one message the server received content for.
type MXTx struct {
	N          int
	Host       string
	ConnID     int
	ConnTxN    int // n-th transaction on this connection
	TLS        bool
	Cert       CertKind
	From       string
	MailParams string
	Rcpts      []string // accepted
	RcptsAll   []string
	// RcptPerm: recipients whose RCPT command was answered with a permanent
	// failure in this transaction
	RcptPerm []string
	Data     []byte
	FinalCode  int
	PerRcpt    map[string]int
	ReplyLost  bool
	At         time.Duration
	Step       int
	MailStep   int // controller step at which MAIL was accepted
}

// ScriptedMX is a hand-written, deliberately permissive SMTP/LMTP server.
type ScriptedMX struct {
	Host string
	Plan *MXPlan
	PKI  *PKI

	mu     sync.Mutex
	Txs    []*MXTx
	Conns  int
	nMail  int
	nData  int
	nFinal int
	nGreet int
	rcptN  map[string]int
	Events []string
}

func pick(plan []Outcome, n int) Outcome {
	if len(plan) == 0 {
		return OK
	}
	if n >= len(plan) {
		return plan[len(plan)-1]
	}
	return plan[n]
}

func (m *ScriptedMX) reply(o Outcome, okCode int, okText string) string {
	text := okText
	code := okCode
	enh := "2.0.0 "
	switch o {
	case Temp:
		code, enh, text = 451, "4.3.0 ", "scripted temporary rejection"
	case Perm:
		code, enh, text = 550, "5.1.1 ", "scripted permanent rejection"
		if m.Plan.Perm552 {
			// "exceeded storage allocation": senders are told to treat it
			// as temporary (RFC 5321 4.5.3.1.10)
			code, enh, text = 552, "5.2.2 ", "scripted mailbox full"
		}
	case Unclass:
		code, enh, text = 421, "4.4.2 ", "scripted service not available"
	}
	if m.Plan.NonASCIIText && o != OK {
		text += " (отказ)"
	}
	if !m.Plan.EnhCodes || code == 354 || code == 220 {
		enh = ""
	}
	return fmt.Sprintf("%d %s%s", code, enh, text)
}

// Serve accepts connections until the listener is closed.
func (m *ScriptedMX) Serve(l net.Listener) {
	s := simrt.Cur()
	for {
		c, err := l.Accept()
		if err != nil {
			return
		}
		m.mu.Lock()
		m.Conns++
		id := m.Conns
		m.mu.Unlock()
		name := fmt.Sprintf("mx-%s-c%d", m.Host, id)
		if s != nil {
			s.Spawn(name, nil, func() { m.handle(c, id) })
		} else {
			go m.handle(c, id)
		}
	}
}

func (m *ScriptedMX) logf(format string, a ...interface{}) {
	if s := simrt.Cur(); s != nil {
		s.Logf("mx %s: "+format, append([]interface{}{m.Host}, a...)...)
	}
}

func (m *ScriptedMX) handle(raw net.Conn, id int) {
	defer raw.Close()
	conn := raw
	br := bufio.NewReader(conn)
	send := func(line string) bool {
		_, err := conn.Write([]byte(line + "\r\n"))
		return err == nil
	}
	m.mu.Lock()
	g := pick(m.Plan.Greeting, m.nGreet)
	m.nGreet++
	m.mu.Unlock()
	if g != OK {
		send(m.reply(g, 220, ""))
		m.logf("c%d greeting refused (%v)", id, g)
		if s := simrt.Cur(); s != nil {
			s.Stat("fault_mx_greeting_" + g.String())
		}
		return
	}
	if !send("220 " + m.Host + " ESMTP scripted") {
		return
	}
	tlsOn := false
	var from, mailParams string
	var rcpts, rcptsAll, rcptPerm []string
	connTx := 0
	mailStep := 0
	for {
		idle := 20 * time.Minute
		if m.Plan.IdleClose > 0 {
			// a server with a short idle time-out: a connection the client
			// keeps cached is gone when it is used again
			idle = m.Plan.IdleClose
		}
		conn.SetReadDeadline(time.Now().Add(idle))
		line, err := br.ReadString('\n')
		if err != nil {
			if m.Plan.IdleClose > 0 {
				if s := simrt.Cur(); s != nil {
					s.Stat("fault_mx_idle_close")
				}
			}
			return
		}
		line = strings.TrimRight(line, "\r\n")
		up := strings.ToUpper(line)
		switch {
		case strings.HasPrefix(up, "EHLO"), strings.HasPrefix(up, "LHLO"):
			caps := []string{m.Host, "PIPELINING", "8BITMIME"}
			if m.Plan.EnhCodes {
				caps = append(caps, "ENHANCEDSTATUSCODES")
			}
			if m.Plan.StartTLS && !tlsOn {
				caps = append(caps, "STARTTLS")
			}
			if m.Plan.SMTPUTF8 {
				caps = append(caps, "SMTPUTF8")
			}
			if m.Plan.RequireTLS && tlsOn {
				caps = append(caps, "REQUIRETLS")
			}
			for i, c := range caps {
				sep := "-"
				if i == len(caps)-1 {
					sep = " "
				}
				if !send("250" + sep + c) {
					return
				}
			}
		case strings.HasPrefix(up, "HELO"):
			send("250 " + m.Host)
		case up == "STARTTLS":
			if !m.Plan.StartTLS || tlsOn {
				send("502 5.5.1 not available")
				continue
			}
			if !send("220 2.0.0 ready to start TLS") {
				return
			}
			if m.Plan.TLSFails {
				// garbage instead of a handshake
				if s := simrt.Cur(); s != nil {
					s.Stat("fault_mx_tls_handshake")
				}
				conn.Write([]byte("this is not TLS\r\n"))
				return
			}
			cfg := &tls.Config{Certificates: []tls.Certificate{m.PKI.Cert(m.Host, m.Plan.Cert)}, MinVersion: tls.VersionTLS12, Time: time.Now}
			tc := tls.Server(conn, cfg)
			if err := tc.Handshake(); err != nil {
				m.logf("c%d TLS handshake failed: %v", id, truncate(err.Error(), 80))
				return
			}
			conn = tc
			br = bufio.NewReader(conn)
			tlsOn = true
			m.logf("c%d TLS established (cert %v)", id, m.Plan.Cert)
		case strings.HasPrefix(up, "MAIL FROM:"):
			m.mu.Lock()
			o := pick(m.Plan.Mail, m.nMail)
			m.nMail++
			m.mu.Unlock()
			arg := strings.TrimSpace(line[len("MAIL FROM:"):])
			addr, params := arg, ""
			if i := strings.Index(arg, ">"); i >= 0 {
				addr, params = arg[:i+1], strings.TrimSpace(arg[i+1:])
			}
			if o != OK {
				if s := simrt.Cur(); s != nil {
					s.Stat("fault_mx_mail_" + o.String())
				}
				send(m.reply(o, 250, ""))
				m.logf("c%d MAIL %s -> %v", id, addr, o)
				continue
			}
			from, mailParams = strings.Trim(addr, "<>"), params
			rcpts, rcptsAll, rcptPerm = nil, nil, nil
			if s := simrt.Cur(); s != nil {
				mailStep = s.Steps()
			}
			send("250 2.1.0 sender ok")
		case strings.HasPrefix(up, "RCPT TO:"):
			arg := strings.TrimSpace(line[len("RCPT TO:"):])
			addr := arg
			if i := strings.Index(arg, ">"); i >= 0 {
				addr = arg[:i+1]
			}
			addr = strings.Trim(addr, "<>")
			m.mu.Lock()
			if m.rcptN == nil {
				m.rcptN = map[string]int{}
			}
			o := pick(m.Plan.Rcpt[addr], m.rcptN[addr])
			m.rcptN[addr]++
			m.mu.Unlock()
			rcptsAll = append(rcptsAll, addr)
			if o != OK {
				if s := simrt.Cur(); s != nil {
					s.Stat("fault_mx_rcpt_" + o.String())
				}
				send(m.reply(o, 250, ""))
				m.logf("c%d RCPT %s -> %v", id, addr, o)
				if o == Perm && !m.Plan.Perm552 {
					// (552 may legitimately be treated like 452 and retried)
					rcptPerm = append(rcptPerm, addr)
				}
				continue
			}
			rcpts = append(rcpts, addr)
			send("250 2.1.5 recipient ok")
		case up == "DATA":
			m.mu.Lock()
			o := pick(m.Plan.Data, m.nData)
			m.nData++
			m.mu.Unlock()
			if o != OK {
				if s := simrt.Cur(); s != nil {
					s.Stat("fault_mx_data_" + o.String())
				}
				send(m.reply(o, 354, ""))
				m.logf("c%d DATA -> %v", id, o)
				continue
			}
			if len(rcpts) == 0 {
				send("503 5.5.1 no recipients")
				continue
			}
			if !send("354 go ahead") {
				return
			}
			if nd := m.nData - 1; nd >= 0 && nd < len(m.Plan.DropMidData) && m.Plan.DropMidData[nd] {
				br.ReadString('\n')
				if s := simrt.Cur(); s != nil {
					s.Stat("fault_mx_drop_mid_data")
				}
				m.logf("c%d dropping the connection in the middle of the message data", id)
				return
			}
			var data []byte
			for {
				l, err := br.ReadString('\n')
				if err != nil {
					return
				}
				if l == ".\r\n" {
					break
				}
				if strings.HasPrefix(l, ".") {
					l = l[1:]
				}
				data = append(data, l...)
			}
			connTx++
			m.mu.Lock()
			n := m.nFinal
			m.nFinal++
			tx := &MXTx{N: len(m.Txs) + 1, Host: m.Host, ConnID: id, ConnTxN: connTx, TLS: tlsOn, Cert: m.Plan.Cert, From: from, MailParams: mailParams,
				Rcpts: append([]string(nil), rcpts...), RcptsAll: append([]string(nil), rcptsAll...), RcptPerm: append([]string(nil), rcptPerm...), Data: data, PerRcpt: map[string]int{}}
			if s := simrt.Cur(); s != nil {
				tx.At, tx.Step = s.Now(), s.Steps()
				tx.MailStep = mailStep
			}
			m.Txs = append(m.Txs, tx)
			drop := n < len(m.Plan.DropAfterFinal) && m.Plan.DropAfterFinal[n]
			dropAfter := -1
			if n < len(m.Plan.DropAfterStatuses) {
				dropAfter = m.Plan.DropAfterStatuses[n]
			}
			m.mu.Unlock()
			m.logf("c%d received message #%d from=%q rcpts=%v tls=%v params=%q (%d bytes)", id, tx.N, from, rcpts, tlsOn, mailParams, len(data))
			if drop {
				tx.ReplyLost = true
				if s := simrt.Cur(); s != nil {
					s.Stat("fault_mx_reply_lost")
				}
				m.logf("c%d dropping the connection before the final reply", id)
				return
			}
			if m.Plan.LMTP {
				for i, r := range rcpts {
					if dropAfter >= 0 && i >= dropAfter {
						if s := simrt.Cur(); s != nil {
							s.Stat("fault_mx_lmtp_drop_mid_status")
						}
						m.logf("c%d dropping the connection after %d statuses", id, i)
						return
					}
					o := pick(m.Plan.FinalPer[r], 0)
					if n < len(m.Plan.FinalPer[r]) {
						o = m.Plan.FinalPer[r][n]
					}
					rep := m.reply(o, 250, "delivered")
					fmt.Sscanf(rep, "%d", new(int))
					code := 250
					fmt.Sscanf(rep, "%d", &code)
					tx.PerRcpt[r] = code
					if o != OK {
						if s := simrt.Cur(); s != nil {
							s.Stat("fault_mx_lmtp_status_" + o.String())
						}
					}
					if !send(rep) {
						return
					}
				}
			} else {
				o := pick(m.Plan.Final, n)
				rep := m.reply(o, 250, "queued")
				fmt.Sscanf(rep, "%d", &tx.FinalCode)
				if o != OK {
					if s := simrt.Cur(); s != nil {
						s.Stat("fault_mx_final_" + o.String())
					}
				}
				if !send(rep) {
					return
				}
			}
			from, rcpts, rcptsAll, rcptPerm = "", nil, nil, nil
		case up == "RSET":
			from, rcpts, rcptsAll, rcptPerm = "", nil, nil, nil
			send("250 2.0.0 reset")
		case up == "NOOP":
			send("250 2.0.0 ok")
		case up == "QUIT":
			if m.Plan.Quit421 {
				// answers 421 and keeps the connection open (a peer - or a
				// man in the middle - that does not hang up by itself)
				if s := simrt.Cur(); s != nil {
					s.Stat("fault_mx_quit_421")
				}
				send("421 4.3.2 service shutting down")
				continue
			}
			send("221 2.0.0 bye")
			return
		default:
			send("500 5.5.2 what?")
		}
	}
}

// Received returns a copy of the transactions.
func (m *ScriptedMX) Received() []*MXTx {
	m.mu.Lock()
	defer m.mu.Unlock()
	return append([]*MXTx(nil), m.Txs...)
}
