// Package actors holds the scripted stand-ins for what surrounds the code
// under test: delivery targets, checks, modifiers, SMTP peers.
package actors

import (
	"bytes"
	"context"
	"errors"
	"fmt"
	"io"
	"net"
	"runtime"
	"sort"
	"strings"
	"sync"
	"time"

	"github.com/emersion/go-message/textproto"
	"github.com/emersion/go-smtp"
	"github.com/foxcpp/maddy/framework/buffer"
	"github.com/foxcpp/maddy/framework/config"
	"github.com/foxcpp/maddy/framework/exterrors"
	"github.com/foxcpp/maddy/framework/module"
	"github.com/foxcpp/maddy/internal/verifsim/simrt"
)

// Outcome of one scripted stage.
type Outcome int

const (
	OK Outcome = iota
	Temp
	Perm
	Unclass
)

func (o Outcome) String() string { return [...]string{"ok", "temp", "perm", "unclass"}[o] }

// Retriable: the documented treatment is "try again later".
func (o Outcome) Retriable() bool { return o == Temp || o == Unclass }

type tempNetErr struct{}

func (tempNetErr) Error() string   { return "i/o timeout" }
func (tempNetErr) Timeout() bool   { return true }
func (tempNetErr) Temporary() bool { return true }

// SecretMarker is put into every error text that must never reach a client
// (texts of errors without SMTP annotations, wrapped causes).
const SecretMarker = "INTERNAL-DETAIL-7f3a"

// MkErr builds an error value of the requested class from the repository's
// own primitives. variant selects a base construction (SMTP-annotated,
// temporary-marked, network error, plain) and a wrapping pattern (field
// wrappers, %w wrappers, extra consistent temporary markers) nested up to
// depth 4. Every value is self-consistent: along its Unwrap chain all
// Temporary() markers and SMTP code classes agree or are absent - except for
// one wrapper (re-annotation) whose outermost annotation differs from what it
// wraps and governs. Annotated
// errors carry "tempfail"/"permfail" in their client-facing text so that a
// reply can be matched with the class that was injected; unannotated texts
// and wrapped causes carry SecretMarker.
func MkErr(o Outcome, variant int, where string) error {
	if o == OK {
		return nil
	}
	if variant < 0 {
		variant = -variant
	}
	base := mkBaseErr(o, variant%8, where)
	temp := o == Temp
	switch (variant / 8) % 7 {
	case 6:
		// re-annotation: an outer SMTP annotation of the requested class that
		// has a basic code only, around an annotated error of the *other*
		// class (what a module gets when it classifies a downstream failure
		// itself). The outermost annotation governs: basic code, retry
		// treatment - and the enhanced code must not be taken from below.
		switch o {
		case Temp:
			return &exterrors.SMTPError{Code: 451, Message: "tempfail re-annotated " + where, TargetName: "scripted", Err: mkBaseErr(Perm, variant%8, where)}
		case Perm:
			return &exterrors.SMTPError{Code: 554, Message: "permfail re-annotated " + where, TargetName: "scripted", Err: mkBaseErr(Temp, variant%8, where)}
		}
	case 1:
		return exterrors.WithFields(base, map[string]interface{}{"where": where})
	case 2:
		return fmt.Errorf("context %s: %w", SecretMarker, base)
	case 3:
		return exterrors.WithFields(fmt.Errorf("outer %s: %w", SecretMarker, exterrors.WithFields(base, map[string]interface{}{"inner": 1})), map[string]interface{}{"outer": 2})
	case 4:
		if o != Unclass {
			return exterrors.WithTemporary(exterrors.WithFields(base, map[string]interface{}{"x": where}), temp)
		}
		return fmt.Errorf("a: %w", fmt.Errorf("b: %w", fmt.Errorf("c %s: %w", SecretMarker, base)))
	case 5:
		if o != Unclass {
			return fmt.Errorf("w: %w", exterrors.WithTemporary(fmt.Errorf("v: %w", base), temp))
		}
	}
	return base
}

func mkBaseErr(o Outcome, k int, where string) error {
	cause := errors.New("cause " + SecretMarker)
	switch o {
	case Temp:
		switch k {
		case 0:
			return &exterrors.SMTPError{Code: 451, EnhancedCode: exterrors.EnhancedCode{4, 3, 0}, Message: "tempfail scripted " + where, TargetName: "scripted", Err: cause}
		case 1:
			return exterrors.WithTemporary(errors.New("marked-temporary "+SecretMarker+" "+where), true)
		case 2:
			return &net.OpError{Op: "read", Net: "tcp", Err: tempNetErr{}}
		case 3:
			return &exterrors.SMTPError{Code: 421, EnhancedCode: exterrors.EnhancedCode{4, 4, 2}, Message: "tempfail scripted 421 " + where, Reason: "reason " + SecretMarker}
		case 4:
			return &exterrors.SMTPError{Code: 452, EnhancedCode: exterrors.EnhancedCode{4, 2, 2}, Message: "tempfail переполнен (non-ASCII text) " + where, TargetName: "scripted"}
		case 5:
			return &exterrors.SMTPError{Code: 450, EnhancedCode: exterrors.EnhancedCode{4, 7, 1}, Message: "tempfail with U+0080 [\u0080] and U+00A0 [\u00a0] " + where}
		case 6:
			return &exterrors.SMTPError{Code: 451, EnhancedCode: exterrors.EnhancedCode{4, 0, 0}, Message: "tempfail first line\nsecond line " + where, CheckName: "scripted"}
		default:
			return &exterrors.SMTPError{Code: 451, EnhancedCode: exterrors.EnhancedCode{4, 4, 1}, Message: "tempfail scripted misc " + where, Misc: map[string]interface{}{"detail": SecretMarker}}
		}
	case Perm:
		switch k {
		case 0:
			return &exterrors.SMTPError{Code: 550, EnhancedCode: exterrors.EnhancedCode{5, 1, 1}, Message: "permfail scripted " + where, TargetName: "scripted", Err: cause}
		case 1:
			return exterrors.WithTemporary(errors.New("marked-permanent "+SecretMarker+" "+where), false)
		case 2:
			return &exterrors.SMTPError{Code: 554, EnhancedCode: exterrors.EnhancedCode{5, 7, 1}, Message: "permfail scripted 554\nsecond line " + where}
		case 3:
			return &exterrors.SMTPError{Code: 550, EnhancedCode: exterrors.EnhancedCode{5, 1, 1}, Message: "permfail ящик не найден (non-ASCII text) " + where, TargetName: "scripted"}
		case 4:
			return &exterrors.SMTPError{Code: 553, EnhancedCode: exterrors.EnhancedCode{5, 1, 3}, Message: "permfail with U+0080 [\u0080] " + where}
		case 5:
			return &exterrors.SMTPError{Code: 552, EnhancedCode: exterrors.EnhancedCode{5, 3, 4}, Message: "permfail too big " + where, Reason: "reason " + SecretMarker}
		case 6:
			// a lookup that ran out of time below a permanent classification
			// (what a check with `fail_action reject 550 ...` makes of its
			// resolver's deadline). The endpoint answers deadline errors with
			// its own "high load" reply; whatever it answers has to be coherent
			// (the text carries no class word: only coherence is judged)
			return &exterrors.SMTPError{Code: 550, EnhancedCode: exterrors.EnhancedCode{5, 7, 1}, Message: "lookup did not finish " + where, CheckName: "scripted", Err: fmt.Errorf("resolver %s: %w", SecretMarker, context.DeadlineExceeded)}
		default:
			return &exterrors.SMTPError{Code: 550, EnhancedCode: exterrors.EnhancedCode{5, 7, 0}, Message: "permfail policy " + where, CheckName: "scripted", Misc: map[string]interface{}{"detail": SecretMarker}}
		}
	default:
		switch k % 3 {
		case 0:
			return errors.New("unclassified " + SecretMarker + " " + where)
		case 1:
			return fmt.Errorf("wrapped %s: %w", SecretMarker, errors.New("unclassified inner "+where))
		default:
			return exterrors.WithFields(errors.New("unclassified with fields "+SecretMarker), map[string]interface{}{"where": where})
		}
	}
}

// StagePlan says how one transaction on a scripted target behaves.
type StagePlan struct {
	Start  Outcome
	Rcpt   map[string]Outcome // missing = OK
	Body   Outcome            // atomic Body, or (partial) failure for every accepted recipient
	Status map[string]Outcome // partial: per-recipient result
	Commit Outcome
	Abort  Outcome
	Var    int // error construction variant
}

// TxRecord is what the scripted target observed for one transaction.
type TxRecord struct {
	N          int
	MsgID      string // as passed (the queue appends -<hex time>)
	From       string
	Meta       module.MsgMetadata
	MetaPtr    *module.MsgMetadata `json:"-"`
	AuthUser   string              // Conn.AuthUser at Start
	Plan       *StagePlan
	Started    bool
	StartRes   Outcome
	Rcpts      []string           // every AddRcpt argument, in order
	RcptRes    map[string]Outcome // result per presented recipient
	BodyCall   bool
	Partial    bool
	BodyRes    Outcome
	Statuses   map[string]Outcome // what we reported (partial)
	Header     []byte
	Body       []byte
	BodyErr    string // error reading the body we were handed
	MetaAtBody module.MsgMetadata
	Commits    int
	Aborts     int
	CommitRes  Outcome
	Closed     bool
	At         string // simulated time of Start
	AtD        time.Duration
	EndD       time.Duration
	EndStep    int
	Step       int
	Inc        int
}

// Accepted returns the recipients for which AddRcpt returned nil.
func (tx *TxRecord) Accepted() []string {
	var out []string
	for _, r := range tx.Rcpts {
		if tx.RcptRes[r] == OK {
			out = append(out, r)
		}
	}
	return out
}

// ScriptedTarget is a module.DeliveryTarget following a plan and recording a
// typestate-checked log. Every call is a simulation point.
type ScriptedTarget struct {
	Label   string
	Partial bool
	// PlanFor picks the plan for a new transaction (called at Start).
	PlanFor func(tx *TxRecord) *StagePlan
	// Prop is the property id typestate violations are attributed to.
	Prop string
	// Inc: incarnation getter; calls arriving from a dead incarnation vanish.
	IncOf func() *simrt.Inc
	// OnStart, when set, sees the metadata object handed to Start after it
	// has been recorded (a target may legitimately write to it, as a pipeline
	// does when it records a recipient rewrite).
	OnStart func(msgMeta *module.MsgMetadata)

	mu  sync.Mutex
	Txs []*TxRecord
}

func (t *ScriptedTarget) Init(*config.Map) error { return nil }
func (t *ScriptedTarget) Name() string           { return "scripted" }
func (t *ScriptedTarget) InstanceName() string   { return t.Label }
func (t *ScriptedTarget) SimLabel() string       { return t.Label }

func (t *ScriptedTarget) point(stage string) *simrt.Sim {
	simrt.Point("tgt:"+t.Label, stage)
	s := simrt.Cur()
	if s != nil {
		if tk := s.CurTask(); tk != nil && tk.Inc.Dead() {
			simrt.MarkDying()
			runtime.Goexit()
		}
	}
	return s
}

func (t *ScriptedTarget) Records() []*TxRecord {
	t.mu.Lock()
	defer t.mu.Unlock()
	return append([]*TxRecord(nil), t.Txs...)
}

func (t *ScriptedTarget) violate(s *simrt.Sim, rule, format string, a ...interface{}) {
	if s != nil && t.Prop != "" {
		s.Violate(t.Prop+"/"+rule, format, a...)
	}
}

func (t *ScriptedTarget) Start(ctx context.Context, msgMeta *module.MsgMetadata, mailFrom string) (module.Delivery, error) {
	s := t.point("Start")
	tx := &TxRecord{MsgID: msgMeta.ID, From: mailFrom, Meta: *msgMeta, MetaPtr: msgMeta, RcptRes: map[string]Outcome{}, Statuses: map[string]Outcome{}, Partial: t.Partial}
	if msgMeta.Conn != nil {
		tx.AuthUser = msgMeta.Conn.AuthUser
	}
	if s != nil {
		tx.At = s.Now().String()
		tx.AtD = s.Now()
		tx.Step = s.Steps()
		if tk := s.CurTask(); tk != nil && tk.Inc != nil {
			tx.Inc = tk.Inc.ID
		}
	}
	t.mu.Lock()
	tx.N = len(t.Txs) + 1
	t.Txs = append(t.Txs, tx)
	t.mu.Unlock()
	if t.OnStart != nil {
		t.OnStart(msgMeta)
	}
	if t.PlanFor != nil {
		tx.Plan = t.PlanFor(tx)
	}
	if tx.Plan == nil {
		tx.Plan = &StagePlan{}
	}
	tx.StartRes = tx.Plan.Start
	if s != nil {
		s.Logf("%s tx%d Start id=%s from=%q -> %v", t.Label, tx.N, s.ID("id", BaseID(msgMeta.ID)), mailFrom, tx.StartRes)
	}
	if tx.StartRes != OK {
		if s != nil {
			s.Stat("fault_tgt_start_" + tx.StartRes.String())
		}
		tx.Closed = true // a failed Start opens nothing
		return nil, MkErr(tx.StartRes, tx.Plan.Var, "start")
	}
	tx.Started = true
	d := &scriptedDelivery{t: t, tx: tx}
	if t.Partial {
		return &scriptedPartial{d}, nil
	}
	return d, nil
}

// BaseID strips the "-<hex unix time>" suffix the queue appends per attempt.
func BaseID(id string) string {
	if i := strings.LastIndex(id, "-"); i > 0 {
		return id[:i]
	}
	return id
}

type scriptedDelivery struct {
	t  *ScriptedTarget
	tx *TxRecord
}

type scriptedPartial struct{ *scriptedDelivery }

func (d *scriptedDelivery) use(s *simrt.Sim, call string) {
	if d.tx.Closed {
		d.t.violate(s, "use-after-close/"+call, "%s tx%d: %s after the delivery was closed", d.t.Label, d.tx.N, call)
	}
}

func (d *scriptedDelivery) AddRcpt(ctx context.Context, rcptTo string, _ smtp.RcptOptions) error {
	s := d.t.point("AddRcpt")
	d.use(s, "AddRcpt")
	res := d.tx.Plan.Rcpt[rcptTo]
	d.tx.Rcpts = append(d.tx.Rcpts, rcptTo)
	if prev, dup := d.tx.RcptRes[rcptTo]; dup && prev == OK {
		// duplicate presentation of an accepted recipient: keep accepted
		res = OK
	}
	d.tx.RcptRes[rcptTo] = res
	if s != nil {
		s.Logf("%s tx%d AddRcpt %q -> %v", d.t.Label, d.tx.N, rcptTo, res)
		if res != OK {
			s.Stat("fault_tgt_rcpt_" + res.String())
		}
	}
	return MkErr(res, d.tx.Plan.Var, "rcpt")
}

func (d *scriptedDelivery) record(s *simrt.Sim, header textproto.Header, body buffer.Buffer) {
	// BodyCall is set once the content was read completely: reading goes
	// through the simulated disk, where a crash can end this goroutine; a
	// half-made record must not be compared with the accepted bytes.
	// (not deferred: Goexit runs deferred calls)
	d.tx.MetaAtBody = *d.tx.MetaPtr
	var hb bytes.Buffer
	textproto.WriteHeader(&hb, header)
	d.tx.Header = hb.Bytes()
	if body != nil {
		r, err := body.Open()
		if err != nil {
			d.tx.BodyErr = "open: " + err.Error()
		} else {
			b, err := io.ReadAll(r)
			r.Close()
			if err != nil {
				d.tx.BodyErr = "read: " + err.Error()
			}
			d.tx.Body = b
		}
	}
	d.tx.BodyCall = true
}

func (d *scriptedDelivery) Body(ctx context.Context, header textproto.Header, body buffer.Buffer) error {
	s := d.t.point("Body")
	d.use(s, "Body")
	if d.tx.BodyCall {
		d.t.violate(s, "body-twice", "%s tx%d: Body called twice", d.t.Label, d.tx.N)
	}
	d.record(s, header, body)
	d.tx.BodyRes = d.tx.Plan.Body
	if s != nil {
		s.Logf("%s tx%d Body hdr=%dB body=%dB -> %v", d.t.Label, d.tx.N, len(d.tx.Header), len(d.tx.Body), d.tx.BodyRes)
		if d.tx.BodyRes != OK {
			s.Stat("fault_tgt_body_" + d.tx.BodyRes.String())
		}
	}
	return MkErr(d.tx.BodyRes, d.tx.Plan.Var, "body")
}

func (d *scriptedPartial) BodyNonAtomic(ctx context.Context, c module.StatusCollector, header textproto.Header, body buffer.Buffer) {
	s := d.t.point("BodyNonAtomic")
	d.use(s, "BodyNonAtomic")
	if d.tx.BodyCall {
		d.t.violate(s, "body-twice", "%s tx%d: body called twice", d.t.Label, d.tx.N)
	}
	d.record(s, header, body)
	acc := d.tx.Accepted()
	sort.Strings(acc)
	seen := map[string]bool{}
	for _, r := range acc {
		if seen[r] {
			continue
		}
		seen[r] = true
		res := d.tx.Plan.Body
		if res == OK {
			res = d.tx.Plan.Status[r]
		}
		d.tx.Statuses[r] = res
		if s != nil && res != OK {
			s.Stat("fault_tgt_status_" + res.String())
		}
		c.SetStatus(r, MkErr(res, d.tx.Plan.Var, "status"))
	}
	if s != nil {
		s.Logf("%s tx%d BodyNonAtomic hdr=%dB body=%dB statuses=%v", d.t.Label, d.tx.N, len(d.tx.Header), len(d.tx.Body), fmtStatuses(d.tx.Statuses))
	}
}

func fmtStatuses(m map[string]Outcome) string {
	var ks []string
	for k := range m {
		ks = append(ks, k)
	}
	sort.Strings(ks)
	var sb strings.Builder
	for _, k := range ks {
		fmt.Fprintf(&sb, "%s=%v ", k, m[k])
	}
	return strings.TrimSpace(sb.String())
}

func (d *scriptedDelivery) Abort(ctx context.Context) error {
	s := d.t.point("Abort")
	// Abort after a Commit that *failed* is accepted as roll-back; Abort after
	// a successful Commit or after another Abort is a second close.
	if d.tx.Closed && !(d.tx.Aborts == 0 && d.tx.Commits == 1 && d.tx.CommitRes != OK) {
		d.t.violate(s, "closed-twice/Abort", "%s tx%d: Abort on a closed delivery (commits=%d aborts=%d)", d.t.Label, d.tx.N, d.tx.Commits, d.tx.Aborts)
	}
	d.tx.Aborts++
	d.tx.Closed = true
	if s != nil {
		d.tx.EndD, d.tx.EndStep = s.Now(), s.Steps()
	}
	if s != nil {
		s.Logf("%s tx%d Abort -> %v", d.t.Label, d.tx.N, d.tx.Plan.Abort)
		if d.tx.Plan.Abort != OK {
			s.Stat("fault_tgt_abort_" + d.tx.Plan.Abort.String())
		}
	}
	return MkErr(d.tx.Plan.Abort, d.tx.Plan.Var, "abort")
}

func (d *scriptedDelivery) Commit(ctx context.Context) error {
	s := d.t.point("Commit")
	if d.tx.Closed {
		d.t.violate(s, "closed-twice/Commit", "%s tx%d: Commit on a closed delivery (commits=%d aborts=%d)", d.t.Label, d.tx.N, d.tx.Commits, d.tx.Aborts)
	}
	if d.tx.BodyCall && !d.tx.Partial && d.tx.BodyRes != OK {
		d.t.violate(s, "commit-after-failed-body", "%s tx%d: Commit although Body had failed (%v)", d.t.Label, d.tx.N, d.tx.BodyRes)
	}
	d.tx.Commits++
	d.tx.Closed = true
	if s != nil {
		d.tx.EndD, d.tx.EndStep = s.Now(), s.Steps()
	}
	d.tx.CommitRes = d.tx.Plan.Commit
	if s != nil {
		s.Logf("%s tx%d Commit -> %v", d.t.Label, d.tx.N, d.tx.CommitRes)
		if d.tx.CommitRes != OK {
			s.Stat("fault_tgt_commit_" + d.tx.CommitRes.String())
		}
	}
	return MkErr(d.tx.CommitRes, d.tx.Plan.Var, "commit")
}

// Delivered reports whether recipient r was successfully delivered by tx.
func (tx *TxRecord) Delivered(r string) bool {
	if !tx.Started || tx.RcptRes[r] != OK || !tx.BodyCall || tx.Commits == 0 || tx.CommitRes != OK {
		return false
	}
	present := false
	for _, x := range tx.Rcpts {
		if x == r {
			present = true
		}
	}
	if !present {
		return false
	}
	if tx.Partial {
		return tx.Statuses[r] == OK
	}
	return tx.BodyRes == OK
}
