// Package simfs is an in-memory file system exposing the subset of package os
// that the queue spool and the file buffer use. The check build rewrites their
// `"os"` import to this package, which makes every file operation a numbered
// simulation point at which the simulated process can be stopped or an error
// injected.
package simfs

import (
	"errors"
	"fmt"
	"io"
	iofs "io/fs"
	"os"
	"path/filepath"
	"runtime"
	"sort"
	"strings"
	"sync"
	"syscall"
	"time"

	"github.com/foxcpp/maddy/internal/verifsim/simrt"
)

type (
	FileInfo  = iofs.FileInfo
	DirEntry  = iofs.DirEntry
	FileMode  = iofs.FileMode
	PathError = iofs.PathError
)

const (
	ModePerm = iofs.ModePerm
	ModeDir  = iofs.ModeDir

	O_RDONLY = os.O_RDONLY
	O_WRONLY = os.O_WRONLY
	O_RDWR   = os.O_RDWR
	O_APPEND = os.O_APPEND
	O_CREATE = os.O_CREATE
	O_EXCL   = os.O_EXCL
	O_SYNC   = os.O_SYNC
	O_TRUNC  = os.O_TRUNC
)

var (
	ErrNotExist = iofs.ErrNotExist
	ErrExist    = iofs.ErrExist
	ErrClosed   = iofs.ErrClosed
)

func IsNotExist(err error) bool { return os.IsNotExist(err) }
func IsExist(err error) bool    { return os.IsExist(err) }
func Getenv(k string) string    { return os.Getenv(k) }
func TempDir() string           { return "/tmp" }
func Getpid() int               { return 4242 }
func Hostname() (string, error) { return "sim.invalid", nil }

type inode struct {
	data   []byte
	synced int // bytes durable under the power-loss model
	mtime  time.Time
}

// CrashModel selects what survives a crash.
type CrashModel int

const (
	// ModelP: process stop. Every completed call survives.
	ModelP CrashModel = iota
	// ModelS: power loss. Namespace operations are durable and ordered, file
	// data only up to the last successful Sync (plus a chosen part of the tail).
	ModelS
)

// FS is one simulated disk.
type FS struct {
	mu    sync.Mutex
	files map[string]*inode
	dirs  map[string]bool

	// OpN counts mutating operations (create, write, sync, rename, remove).
	OpN int
	// Ops is the log of mutating operations ("create a.header").
	Ops []string

	// CrashAt: stop the process immediately before mutating operation number
	// CrashAt (1-based); 0 = never.
	CrashAt int
	// Torn: if operation CrashAt is a write, a prefix of it is applied first.
	Torn bool
	// TailKeep under ModelS: 0 drop the un-synced tail, 1 keep it, 2 keep half.
	TailKeep int
	Model    CrashModel
	// OnCrash is called (on the crashing goroutine) after the disk state has
	// been reduced to what survives. It must mark the incarnation dead.
	OnCrash func(op string)
	// CrashedBefore names the operation before which the last crash fell.
	CrashedBefore string

	// Fault injection: at most FaultBudget operations fail, each faultable
	// operation failing with probability FaultNum/FaultDen.
	FaultBudget int
	FaultNum    int
	FaultDen    int
	// FaultOps restricts faults to these op kinds (nil = all).
	FaultOps map[string]bool
	// FaultSuffix restricts faults to files whose name ends like this ("" = all).
	FaultSuffix string

	// OnWrite observes every byte range written (credential scan).
	OnWrite func(path string, data []byte)
}

var (
	gmu sync.Mutex
	gfs = New()
)

// New returns an empty disk.
func New() *FS {
	return &FS{files: map[string]*inode{}, dirs: map[string]bool{"/": true}, FaultDen: 1}
}

// Use makes fs the disk seen by the os-like package functions.
func Use(fs *FS) {
	gmu.Lock()
	gfs = fs
	gmu.Unlock()
}

func cur() *FS {
	gmu.Lock()
	defer gmu.Unlock()
	return gfs
}

func clean(p string) string { return filepath.Clean(p) }

func perr(op, path string, err error) error {
	return &PathError{Op: op, Path: path, Err: err}
}

// CanonName, when set, maps a file's base name to the name used in the event
// log and in scheduling keys (random identifiers -> first-appearance numbers).
var CanonName func(base string) string

func canonBase(path string) string {
	b := filepath.Base(path)
	if CanonName != nil {
		b = CanonName(b)
	}
	return b
}

func point(op, path string) {
	simrt.Point("fs:"+op, canonBase(path))
}

// fault decides whether this operation fails by injection.
func (fs *FS) fault(op, path string) error {
	s := simrt.Cur()
	if s == nil || fs.FaultBudget <= 0 || fs.FaultNum <= 0 {
		return nil
	}
	if fs.FaultOps != nil && !fs.FaultOps[op] {
		return nil
	}
	if fs.FaultSuffix != "" && !strings.HasSuffix(path, fs.FaultSuffix) {
		return nil
	}
	if !s.T.Bool("fsfault", fs.FaultNum, fs.FaultDen) {
		return nil
	}
	fs.FaultBudget--
	var e error = syscall.EIO
	if op == "write" || op == "create" {
		if s.T.Choose("fsfaultkind", 2) == 1 {
			e = syscall.ENOSPC
		}
	}
	if op == "read" && s.T.Choose("fsfaultkind", 2) == 1 {
		// not an errno (which happens to satisfy net.Error): what a layered
		// or damaged store reports
		e = io.ErrUnexpectedEOF
	}
	s.Stat("fault_fs_" + op)
	s.Logf("fs FAULT %s %s: %v", op, canonBase(path), e)
	return perr(op, path, e)
}

// mutating numbers the operation and performs the crash if it is due.
// It returns the number of bytes of a torn write to apply before crashing
// (-1: no crash).
func (fs *FS) mutating(op, path string, wlen int) (crash bool, torn int) {
	fs.OpN++
	fs.Ops = append(fs.Ops, op+" "+canonBase(path))
	if fs.CrashAt != 0 && fs.OpN == fs.CrashAt {
		if op == "write" && fs.Torn && wlen > 0 {
			s := simrt.Cur()
			k := wlen / 2
			if s != nil {
				k = s.T.Choose("torn", wlen)
			}
			return true, k
		}
		return true, 0
	}
	return false, 0
}

func (fs *FS) doCrash(op string) {
	s := simrt.Cur()
	fs.CrashedBefore = op
	fs.CrashAt = 0
	if fs.Model == ModelS {
		paths := make([]string, 0, len(fs.files))
		for p := range fs.files {
			paths = append(paths, p)
		}
		sort.Strings(paths)
		for _, p := range paths {
			ino := fs.files[p]
			if ino.synced < len(ino.data) {
				keep := ino.synced
				switch fs.TailKeep {
				case 1:
					keep = len(ino.data)
				case 2:
					keep = ino.synced + (len(ino.data)-ino.synced)/2
				}
				if s != nil && keep < len(ino.data) {
					s.Stat("crash_dropped_unsynced")
				}
				ino.data = ino.data[:keep]
			}
		}
	}
	// after a crash whatever is on disk is what is durable
	for _, ino := range fs.files {
		ino.synced = len(ino.data)
	}
	if s != nil {
		s.Stat("crash_" + map[CrashModel]string{ModelP: "P", ModelS: "S"}[fs.Model])
		s.Logf("fs CRASH before op#%d %s model=%d", fs.OpN, op, fs.Model)
	}
	cb := fs.OnCrash
	fs.mu.Unlock()
	if cb != nil {
		cb(op)
	}
	simrt.MarkDying()
	runtime.Goexit()
}

// Snapshot returns path -> content of all files.
func (fs *FS) Snapshot() map[string][]byte {
	fs.mu.Lock()
	defer fs.mu.Unlock()
	out := map[string][]byte{}
	for p, ino := range fs.files {
		out[p] = append([]byte(nil), ino.data...)
	}
	return out
}

// Names returns the sorted base names in dir.
func (fs *FS) Names(dir string) []string {
	fs.mu.Lock()
	defer fs.mu.Unlock()
	return fs.namesLocked(clean(dir))
}

func (fs *FS) namesLocked(dir string) []string {
	var out []string
	for p := range fs.files {
		if filepath.Dir(p) == dir {
			out = append(out, filepath.Base(p))
		}
	}
	sort.Strings(out)
	return out
}

// ---------------------------------------------------------------- File

type File struct {
	fs     *FS
	ino    *inode
	path   string
	pos    int
	closed bool
	wr     bool
	rd     bool
	app    bool
}

func (f *File) Name() string { return f.path }

func (f *File) Write(p []byte) (int, error) {
	fs := f.fs
	point("write", f.path)
	fs.mu.Lock()
	if f.closed {
		fs.mu.Unlock()
		return 0, perr("write", f.path, ErrClosed)
	}
	if !f.wr {
		fs.mu.Unlock()
		return 0, perr("write", f.path, syscall.EBADF)
	}
	crash, torn := fs.mutating("write", f.path, len(p))
	if crash {
		if torn > 0 {
			f.apply(p[:torn])
			if s := simrt.Cur(); s != nil {
				s.Stat("crash_torn_write")
			}
		}
		fs.doCrash("write " + canonBase(f.path)) // does not return
	}
	if err := fs.fault("write", f.path); err != nil {
		// short write: a prefix may have reached the file
		n := 0
		if s := simrt.Cur(); s != nil && len(p) > 1 {
			n = s.T.Choose("shortwrite", len(p))
		}
		f.apply(p[:n])
		fs.mu.Unlock()
		return n, err
	}
	f.apply(p)
	fs.mu.Unlock()
	return len(p), nil
}

func (f *File) apply(p []byte) {
	if f.fs.OnWrite != nil && len(p) > 0 {
		f.fs.OnWrite(f.path, p)
	}
	if f.app {
		f.pos = len(f.ino.data)
	}
	end := f.pos + len(p)
	if end > len(f.ino.data) {
		nd := make([]byte, end)
		copy(nd, f.ino.data)
		f.ino.data = nd
	}
	copy(f.ino.data[f.pos:], p)
	if f.pos < f.ino.synced {
		f.ino.synced = f.pos
	}
	f.pos = end
}

func (f *File) WriteString(s string) (int, error) { return f.Write([]byte(s)) }

func (f *File) Read(p []byte) (int, error) {
	fs := f.fs
	// a read is a system call: other tasks run while it is in progress (two
	// tasks reading through shared state, e.g. one buffered reader, interleave
	// here)
	point("read", f.path)
	fs.mu.Lock()
	defer fs.mu.Unlock()
	if f.closed {
		return 0, perr("read", f.path, ErrClosed)
	}
	if !f.rd {
		return 0, perr("read", f.path, syscall.EBADF)
	}
	if err := fs.fault("read", f.path); err != nil {
		return 0, err
	}
	if f.pos >= len(f.ino.data) {
		return 0, io.EOF
	}
	n := copy(p, f.ino.data[f.pos:])
	f.pos += n
	return n, nil
}

func (f *File) ReadAt(p []byte, off int64) (int, error) {
	fs := f.fs
	fs.mu.Lock()
	defer fs.mu.Unlock()
	if f.closed {
		return 0, perr("read", f.path, ErrClosed)
	}
	if int(off) >= len(f.ino.data) {
		return 0, io.EOF
	}
	n := copy(p, f.ino.data[off:])
	if n < len(p) {
		return n, io.EOF
	}
	return n, nil
}

func (f *File) Seek(off int64, whence int) (int64, error) {
	fs := f.fs
	fs.mu.Lock()
	defer fs.mu.Unlock()
	switch whence {
	case io.SeekStart:
		f.pos = int(off)
	case io.SeekCurrent:
		f.pos += int(off)
	case io.SeekEnd:
		f.pos = len(f.ino.data) + int(off)
	}
	if f.pos < 0 {
		f.pos = 0
	}
	return int64(f.pos), nil
}

func (f *File) Sync() error {
	fs := f.fs
	point("sync", f.path)
	fs.mu.Lock()
	if f.closed {
		fs.mu.Unlock()
		return perr("sync", f.path, ErrClosed)
	}
	if crash, _ := fs.mutating("sync", f.path, 0); crash {
		fs.doCrash("sync " + canonBase(f.path))
	}
	if err := fs.fault("sync", f.path); err != nil {
		fs.mu.Unlock()
		return err
	}
	f.ino.synced = len(f.ino.data)
	fs.mu.Unlock()
	return nil
}

func (f *File) Truncate(size int64) error {
	fs := f.fs
	point("truncate", f.path)
	fs.mu.Lock()
	defer fs.mu.Unlock()
	if int(size) < len(f.ino.data) {
		f.ino.data = f.ino.data[:size]
		if f.ino.synced > int(size) {
			f.ino.synced = int(size)
		}
	}
	return nil
}

func (f *File) Close() error {
	fs := f.fs
	fs.mu.Lock()
	defer fs.mu.Unlock()
	if f.closed {
		return perr("close", f.path, ErrClosed)
	}
	f.closed = true
	return nil
}

func (f *File) Stat() (FileInfo, error) {
	fs := f.fs
	fs.mu.Lock()
	defer fs.mu.Unlock()
	return &info{name: filepath.Base(f.path), size: int64(len(f.ino.data)), mt: f.ino.mtime}, nil
}

func (f *File) Chmod(FileMode) error { return nil }

type info struct {
	name string
	size int64
	dir  bool
	mt   time.Time
}

func (i *info) Name() string { return i.name }
func (i *info) Size() int64  { return i.size }
func (i *info) Mode() FileMode {
	if i.dir {
		return ModeDir | 0o755
	}
	return 0o644
}
func (i *info) ModTime() time.Time      { return i.mt }
func (i *info) IsDir() bool             { return i.dir }
func (i *info) Sys() interface{}        { return nil }
func (i *info) Type() FileMode          { return i.Mode().Type() }
func (i *info) Info() (FileInfo, error) { return i, nil }
func (i *info) String() string          { return fmt.Sprintf("%s(%d)", i.name, i.size) }

// ---------------------------------------------------------------- package API

func Create(name string) (*File, error) {
	return OpenFile(name, O_RDWR|O_CREATE|O_TRUNC, 0o666)
}

func Open(name string) (*File, error) { return OpenFile(name, O_RDONLY, 0) }

func OpenFile(name string, flag int, _ FileMode) (*File, error) {
	fs := cur()
	name = clean(name)
	mut := flag&(O_CREATE|O_TRUNC) != 0
	op := "open"
	if mut {
		op = "create"
	}
	point(op, name)
	fs.mu.Lock()
	ino, ok := fs.files[name]
	willMutate := (flag&O_CREATE != 0 && !ok) || (flag&O_TRUNC != 0 && ok)
	if willMutate || mut {
		if crash, _ := fs.mutating("create", name, 0); crash {
			fs.doCrash("create " + canonBase(name))
		}
	}
	if err := fs.fault(op, name); err != nil {
		fs.mu.Unlock()
		return nil, err
	}
	if !ok {
		if flag&O_CREATE == 0 {
			fs.mu.Unlock()
			return nil, perr("open", name, syscall.ENOENT)
		}
		if !fs.dirs[filepath.Dir(name)] {
			fs.mu.Unlock()
			return nil, perr("open", name, syscall.ENOENT)
		}
		ino = &inode{mtime: time.Now()}
		fs.files[name] = ino
	} else {
		if flag&O_CREATE != 0 && flag&O_EXCL != 0 {
			fs.mu.Unlock()
			return nil, perr("open", name, syscall.EEXIST)
		}
		if flag&O_TRUNC != 0 {
			ino.data = nil
			ino.synced = 0
		}
	}
	acc := flag & (O_RDONLY | O_WRONLY | O_RDWR)
	f := &File{fs: fs, ino: ino, path: name,
		rd: acc == O_RDONLY || acc == O_RDWR, wr: acc == O_WRONLY || acc == O_RDWR,
		app: flag&O_APPEND != 0}
	fs.mu.Unlock()
	return f, nil
}

func Remove(name string) error {
	fs := cur()
	name = clean(name)
	point("remove", name)
	fs.mu.Lock()
	if crash, _ := fs.mutating("remove", name, 0); crash {
		fs.doCrash("remove " + canonBase(name))
	}
	if err := fs.fault("remove", name); err != nil {
		fs.mu.Unlock()
		return err
	}
	defer fs.mu.Unlock()
	if _, ok := fs.files[name]; !ok {
		if fs.dirs[name] {
			delete(fs.dirs, name)
			return nil
		}
		return perr("remove", name, syscall.ENOENT)
	}
	delete(fs.files, name)
	return nil
}

func RemoveAll(name string) error {
	fs := cur()
	name = clean(name)
	point("remove", name)
	fs.mu.Lock()
	defer fs.mu.Unlock()
	for p := range fs.files {
		if p == name || strings.HasPrefix(p, name+"/") {
			delete(fs.files, p)
		}
	}
	for p := range fs.dirs {
		if p == name || strings.HasPrefix(p, name+"/") {
			delete(fs.dirs, p)
		}
	}
	return nil
}

func Rename(oldp, newp string) error {
	fs := cur()
	oldp, newp = clean(oldp), clean(newp)
	point("rename", newp)
	fs.mu.Lock()
	if crash, _ := fs.mutating("rename", newp, 0); crash {
		fs.doCrash("rename " + canonBase(newp))
	}
	if err := fs.fault("rename", newp); err != nil {
		fs.mu.Unlock()
		return err
	}
	defer fs.mu.Unlock()
	ino, ok := fs.files[oldp]
	if !ok {
		return &os.LinkError{Op: "rename", Old: oldp, New: newp, Err: syscall.ENOENT}
	}
	delete(fs.files, oldp)
	fs.files[newp] = ino
	return nil
}

func Link(oldp, newp string) error {
	fs := cur()
	oldp, newp = clean(oldp), clean(newp)
	point("link", newp)
	fs.mu.Lock()
	defer fs.mu.Unlock()
	ino, ok := fs.files[oldp]
	if !ok {
		return &os.LinkError{Op: "link", Old: oldp, New: newp, Err: syscall.ENOENT}
	}
	if _, ok := fs.files[newp]; ok {
		return &os.LinkError{Op: "link", Old: oldp, New: newp, Err: syscall.EEXIST}
	}
	fs.files[newp] = ino
	return nil
}

func Stat(name string) (FileInfo, error) {
	fs := cur()
	name = clean(name)
	point("stat", name)
	fs.mu.Lock()
	defer fs.mu.Unlock()
	if err := fs.fault("stat", name); err != nil {
		return nil, err
	}
	if ino, ok := fs.files[name]; ok {
		return &info{name: filepath.Base(name), size: int64(len(ino.data)), mt: ino.mtime}, nil
	}
	if fs.dirs[name] {
		return &info{name: filepath.Base(name), dir: true}, nil
	}
	return nil, perr("stat", name, syscall.ENOENT)
}

func Lstat(name string) (FileInfo, error) { return Stat(name) }

func ReadDir(name string) ([]DirEntry, error) {
	fs := cur()
	name = clean(name)
	point("readdir", name)
	fs.mu.Lock()
	defer fs.mu.Unlock()
	if err := fs.fault("readdir", name); err != nil {
		return nil, err
	}
	if !fs.dirs[name] {
		return nil, perr("open", name, syscall.ENOENT)
	}
	var out []DirEntry
	for _, n := range fs.namesLocked(name) {
		ino := fs.files[filepath.Join(name, n)]
		out = append(out, &info{name: n, size: int64(len(ino.data)), mt: ino.mtime})
	}
	var sub []string
	for d := range fs.dirs {
		if d != name && filepath.Dir(d) == name {
			sub = append(sub, filepath.Base(d))
		}
	}
	sort.Strings(sub)
	for _, d := range sub {
		out = append(out, &info{name: d, dir: true})
	}
	sort.Slice(out, func(i, j int) bool { return out[i].Name() < out[j].Name() })
	return out, nil
}

func MkdirAll(name string, _ FileMode) error {
	fs := cur()
	name = clean(name)
	fs.mu.Lock()
	defer fs.mu.Unlock()
	for p := name; ; p = filepath.Dir(p) {
		fs.dirs[p] = true
		if p == "/" || p == "." {
			break
		}
	}
	return nil
}

func Mkdir(name string, m FileMode) error { return MkdirAll(name, m) }

func ReadFile(name string) ([]byte, error) {
	f, err := Open(name)
	if err != nil {
		return nil, err
	}
	defer f.Close()
	return io.ReadAll(f)
}

func WriteFile(name string, data []byte, perm FileMode) error {
	f, err := OpenFile(name, O_WRONLY|O_CREATE|O_TRUNC, perm)
	if err != nil {
		return err
	}
	_, err = f.Write(data)
	if e := f.Close(); err == nil {
		err = e
	}
	return err
}

func Truncate(name string, size int64) error {
	f, err := OpenFile(name, O_RDWR, 0)
	if err != nil {
		return err
	}
	defer f.Close()
	return f.Truncate(size)
}

func Chmod(string, FileMode) error { return nil }

var _ = errors.New
