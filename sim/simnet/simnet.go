// Package simnet is an in-memory TCP-like network for the simulation: buffered
// byte streams with deadlines on the fake clock, a listener/dial address
// table, and connection-level faults (refuse, black hole, reset).
package simnet

import (
	"context"
	"errors"
	"fmt"
	"io"
	"net"
	"os"
	"sync"
	"syscall"
	"time"

	"github.com/foxcpp/maddy/internal/verifsim/simrt"
)

type half struct {
	mu     sync.Mutex
	cond   *sync.Cond
	buf    []byte
	closed bool // writer closed: EOF after the buffer drains
	reset  bool // connection reset: both directions fail immediately
	// readerGone: the reading end was closed; like TCP answering with RST, a
	// later write into this half fails
	readerGone bool
	// limit > 0: socket buffer size, a writer blocks while the buffer is full
	limit int
	wdl   time.Time // write deadline of the writing end (for blocked writes)
}

func newHalf() *half {
	h := &half{}
	h.cond = sync.NewCond(&h.mu)
	simrt.OnShutdown(func() {
		h.mu.Lock()
		h.cond.Broadcast()
		h.mu.Unlock()
	})
	return h
}

// Conn is one endpoint of a simulated connection.
type Conn struct {
	net    *Net
	ID     string
	rd, wr *half
	local  net.Addr
	remote net.Addr

	mu       sync.Mutex
	rdl, wdl time.Time
	rdlTimer *time.Timer
	closed   bool
	// MaxRead limits the bytes returned by one Read (0 = unlimited).
	MaxRead int
	// AdoptAs, when set, registers the first goroutine that uses this
	// connection end as a named task (gives server-side handler goroutines of
	// non-instrumented libraries a stable identity).
	AdoptAs string
	adopted bool
	// BytesIn / BytesOut count payload.
	BytesIn, BytesOut int
}

type timeoutErr struct{}

func (timeoutErr) Error() string   { return "i/o timeout" }
func (timeoutErr) Timeout() bool   { return true }
func (timeoutErr) Temporary() bool { return true }
func (timeoutErr) Is(target error) bool {
	return target == os.ErrDeadlineExceeded || target == context.DeadlineExceeded
}

func (c *Conn) adopt() {
	if c.AdoptAs == "" || c.adopted {
		return
	}
	c.adopted = true
	if s := simrt.Cur(); s != nil {
		s.Adopt(c.AdoptAs)
	}
}

// waitCond waits on the condition (mu held, as for Cond.Wait) and then parks
// at a simulation point before going on: the goroutine that did the waking-up
// (a writer, a closer, a deadline timer) is still running, and two tasks
// running at once between simulation points would make the order of what
// they do next (log lines, for a start) a matter of real-time scheduling.
func waitCond(cond *sync.Cond, mu *sync.Mutex, site, res string) {
	cond.Wait()
	if simrt.Closing() {
		simrt.ExitShutdown()
	}
	mu.Unlock()
	// (re-locked even if the task is killed at the point: the caller's
	// deferred Unlock stays balanced)
	defer mu.Lock()
	simrt.Point(site, res)
}

func (c *Conn) opErr(op string, err error) error {
	return &net.OpError{Op: op, Net: "tcp", Source: c.local, Addr: c.remote, Err: err}
}

func (c *Conn) Read(p []byte) (int, error) {
	c.adopt()
	h := c.rd
	c.mu.Lock()
	dl := c.rdl
	closed := c.closed
	c.mu.Unlock()
	if closed {
		return 0, c.opErr("read", net.ErrClosed)
	}
	h.mu.Lock()
	defer h.mu.Unlock()
	for {
		if h.reset {
			return 0, c.opErr("read", syscall.ECONNRESET)
		}
		if len(h.buf) > 0 {
			n := len(p)
			if c.MaxRead > 0 && n > c.MaxRead {
				n = c.MaxRead
			}
			n = copy(p[:n], h.buf)
			h.buf = h.buf[n:]
			c.BytesIn += n
			if h.limit > 0 {
				h.cond.Broadcast() // room for a blocked writer
			}
			return n, nil
		}
		if h.closed {
			return 0, io.EOF
		}
		c.mu.Lock()
		closed = c.closed
		dl = c.rdl
		c.mu.Unlock()
		if closed {
			return 0, c.opErr("read", net.ErrClosed)
		}
		if !dl.IsZero() && !time.Now().Before(dl) {
			return 0, c.opErr("read", timeoutErr{})
		}
		waitCond(h.cond, &h.mu, "net:read-woke", c.ID)
	}
}

func (c *Conn) Write(p []byte) (int, error) {
	c.adopt()
	simrt.Point("net:write", c.ID)
	c.mu.Lock()
	closed := c.closed
	c.mu.Unlock()
	if closed {
		return 0, c.opErr("write", net.ErrClosed)
	}
	h := c.wr
	h.mu.Lock()
	defer h.mu.Unlock()
	if h.reset {
		return 0, c.opErr("write", syscall.ECONNRESET)
	}
	if h.closed || h.readerGone {
		return 0, c.opErr("write", syscall.EPIPE)
	}
	if c.net != nil && c.net.blackhole[c.ID] {
		// swallowed: the peer never sees it
		return len(p), nil
	}
	if h.limit <= 0 {
		h.buf = append(h.buf, p...)
		c.BytesOut += len(p)
		h.cond.Broadcast()
		return len(p), nil
	}
	// bounded socket buffer: block while it is full
	written := 0
	for written < len(p) {
		if h.reset {
			return written, c.opErr("write", syscall.ECONNRESET)
		}
		if h.closed || h.readerGone {
			return written, c.opErr("write", syscall.EPIPE)
		}
		if room := h.limit - len(h.buf); room > 0 {
			n := len(p) - written
			if n > room {
				n = room
			}
			h.buf = append(h.buf, p[written:written+n]...)
			written += n
			c.BytesOut += n
			h.cond.Broadcast()
			continue
		}
		if !h.wdl.IsZero() && !time.Now().Before(h.wdl) {
			return written, c.opErr("write", timeoutErr{})
		}
		waitCond(h.cond, &h.mu, "net:write-woke", c.ID)
	}
	return written, nil
}

// Close closes this end: the peer reads EOF after draining.
func (c *Conn) Close() error {
	c.adopt()
	simrt.Point("net:close", c.ID)
	c.mu.Lock()
	if c.closed {
		c.mu.Unlock()
		return c.opErr("close", net.ErrClosed)
	}
	c.closed = true
	if c.rdlTimer != nil {
		c.rdlTimer.Stop()
	}
	c.mu.Unlock()
	c.wr.mu.Lock()
	c.wr.closed = true
	c.wr.cond.Broadcast()
	c.wr.mu.Unlock()
	c.rd.mu.Lock()
	c.rd.readerGone = true
	c.rd.cond.Broadcast()
	c.rd.mu.Unlock()
	if s := simrt.Cur(); s != nil {
		s.Logf("net %s closed", c.ID)
	}
	return nil
}

// Reset aborts the connection in both directions (RST).
func (c *Conn) Reset() {
	for _, h := range []*half{c.rd, c.wr} {
		h.mu.Lock()
		h.reset = true
		h.cond.Broadcast()
		h.mu.Unlock()
	}
	if s := simrt.Cur(); s != nil {
		s.Logf("net %s reset", c.ID)
		s.Stat("fault_net_reset")
	}
}

func (c *Conn) LocalAddr() net.Addr  { return c.local }
func (c *Conn) RemoteAddr() net.Addr { return c.remote }

func (c *Conn) SetDeadline(t time.Time) error {
	c.SetReadDeadline(t)
	return c.SetWriteDeadline(t)
}

func (c *Conn) SetReadDeadline(t time.Time) error {
	c.mu.Lock()
	c.rdl = t
	if c.rdlTimer != nil {
		c.rdlTimer.Stop()
		c.rdlTimer = nil
	}
	if !t.IsZero() {
		d := time.Until(t)
		if d < 0 {
			d = 0
		}
		h := c.rd
		c.rdlTimer = time.AfterFunc(d, func() {
			h.mu.Lock()
			h.cond.Broadcast()
			h.mu.Unlock()
		})
	}
	c.mu.Unlock()
	return nil
}

func (c *Conn) SetWriteDeadline(t time.Time) error {
	c.mu.Lock()
	c.wdl = t
	c.mu.Unlock()
	h := c.wr
	h.mu.Lock()
	h.wdl = t
	limited := h.limit > 0
	h.mu.Unlock()
	if limited && !t.IsZero() {
		d := time.Until(t)
		if d < 0 {
			d = 0
		}
		time.AfterFunc(d, func() {
			h.mu.Lock()
			h.cond.Broadcast()
			h.mu.Unlock()
		})
	}
	return nil
}

// Listener accepts simulated connections for one address.
type Listener struct {
	n      *Net
	addr   *net.TCPAddr
	key    string
	mu     sync.Mutex
	cond   *sync.Cond
	queue  []*Conn
	closed bool
}

func (l *Listener) Accept() (net.Conn, error) {
	l.mu.Lock()
	defer l.mu.Unlock()
	for {
		if l.closed {
			return nil, &net.OpError{Op: "accept", Net: "tcp", Addr: l.addr, Err: net.ErrClosed}
		}
		if len(l.queue) > 0 {
			c := l.queue[0]
			l.queue = l.queue[1:]
			return c, nil
		}
		waitCond(l.cond, &l.mu, "net:accept-woke", l.addr.String())
	}
}

func (l *Listener) Close() error {
	l.mu.Lock()
	l.closed = true
	l.cond.Broadcast()
	l.mu.Unlock()
	l.n.mu.Lock()
	delete(l.n.listeners, l.key)
	l.n.mu.Unlock()
	return nil
}

func (l *Listener) Addr() net.Addr { return l.addr }

// Net is one simulated network.
type Net struct {
	mu        sync.Mutex
	listeners map[string]*Listener
	nconn     int
	// Faults by dial address ("host:port").
	Refuse    map[string]bool
	Timeout   map[string]bool // dial blocks until the context deadline
	blackhole map[string]bool
	// OnDial observes every dial.
	OnDial func(addr string)
	Conns  []*Conn
	// ServerMaxRead limits the bytes one Read of a server-side connection
	// end returns (fragmentation of the byte stream as seen by the server).
	ServerMaxRead int
	// SockBuf > 0 bounds the bytes in flight per direction: writers block
	// while the peer does not read (0 = unbounded, writes never block).
	SockBuf int
}

func New() *Net {
	return &Net{listeners: map[string]*Listener{}, Refuse: map[string]bool{}, Timeout: map[string]bool{}, blackhole: map[string]bool{}}
}

func tcpAddr(hostport string) *net.TCPAddr {
	host, port, err := net.SplitHostPort(hostport)
	if err != nil {
		host = hostport
		port = "0"
	}
	ip := net.ParseIP(host)
	if ip == nil {
		ip = net.IPv4(203, 0, 113, 7)
	}
	p := 0
	fmt.Sscanf(port, "%d", &p)
	return &net.TCPAddr{IP: ip, Port: p}
}

// Listen registers a listener for "ip:port".
func (n *Net) Listen(addr string) *Listener {
	l := &Listener{n: n, addr: tcpAddr(addr), key: addr}
	l.cond = sync.NewCond(&l.mu)
	simrt.OnShutdown(func() {
		l.mu.Lock()
		l.cond.Broadcast()
		l.mu.Unlock()
	})
	n.mu.Lock()
	n.listeners[addr] = l
	n.mu.Unlock()
	return l
}

// Dial connects to a listener; from is the client's source address.
func (n *Net) Dial(ctx context.Context, from, addr string) (*Conn, error) {
	// a fully qualified host name ("mx.example.") is the same host
	if h, p, err := net.SplitHostPort(addr); err == nil && len(h) > 1 && h[len(h)-1] == '.' {
		addr = net.JoinHostPort(h[:len(h)-1], p)
	}
	simrt.Point("net:dial", addr)
	if n.OnDial != nil {
		n.OnDial(addr)
	}
	s := simrt.Cur()
	n.mu.Lock()
	l := n.listeners[addr]
	refuse := n.Refuse[addr]
	timeout := n.Timeout[addr]
	n.nconn++
	id := n.nconn
	n.mu.Unlock()
	if timeout {
		if s != nil {
			s.Stat("fault_net_dial_timeout")
			s.Logf("net dial %s: black hole", addr)
		}
		<-ctx.Done()
		return nil, &net.OpError{Op: "dial", Net: "tcp", Addr: tcpAddr(addr), Err: timeoutErr{}}
	}
	if l == nil || refuse {
		if s != nil {
			s.Stat("fault_net_refused")
			s.Logf("net dial %s: refused", addr)
		}
		return nil, &net.OpError{Op: "dial", Net: "tcp", Addr: tcpAddr(addr), Err: syscall.ECONNREFUSED}
	}
	a, b := newHalf(), newHalf()
	a.limit, b.limit = n.SockBuf, n.SockBuf
	cl := &Conn{net: n, ID: fmt.Sprintf("c%d>", id), rd: a, wr: b, local: tcpAddr(from), remote: l.addr}
	sv := &Conn{net: n, ID: fmt.Sprintf("c%d<", id), rd: b, wr: a, local: l.addr, remote: tcpAddr(from), AdoptAs: fmt.Sprintf("srvconn%d", id), MaxRead: n.ServerMaxRead}
	n.mu.Lock()
	n.Conns = append(n.Conns, cl, sv)
	n.mu.Unlock()
	l.mu.Lock()
	if l.closed {
		l.mu.Unlock()
		return nil, &net.OpError{Op: "dial", Net: "tcp", Addr: tcpAddr(addr), Err: syscall.ECONNREFUSED}
	}
	l.queue = append(l.queue, sv)
	l.cond.Broadcast()
	l.mu.Unlock()
	if s != nil {
		s.Logf("net dial %s from %s: connected as c%d", addr, from, id)
	}
	return cl, nil
}

// Dialer adapts Net to the (ctx, network, addr) dial signature.
func (n *Net) Dialer(from string) func(ctx context.Context, network, addr string) (net.Conn, error) {
	return func(ctx context.Context, network, addr string) (net.Conn, error) {
		c, err := n.Dial(ctx, from, addr)
		if err != nil {
			return nil, err
		}
		return c, nil
	}
}

// Blackhole makes everything written on the connection end id vanish.
func (n *Net) Blackhole(id string, on bool) {
	n.mu.Lock()
	n.blackhole[id] = on
	n.mu.Unlock()
}

var _ = errors.New

// ---------------------------------------------------------------- default dialer seam

var (
	curMu  sync.Mutex
	curNet *Net
	curSrc = "192.0.2.1:0"
)

// SetCurrent makes n the network used by DefaultDial (nil = real network).
func SetCurrent(n *Net, source string) {
	curMu.Lock()
	curNet = n
	if source != "" {
		curSrc = source
	}
	curMu.Unlock()
}

// DefaultDial is what the check build substitutes for (&net.Dialer{}).DialContext
// where the code under test has no dialer seam of its own.
func DefaultDial(ctx context.Context, network, addr string) (net.Conn, error) {
	curMu.Lock()
	n, src := curNet, curSrc
	curMu.Unlock()
	if n == nil {
		return (&net.Dialer{}).DialContext(ctx, network, addr)
	}
	c, err := n.Dial(ctx, src, addr)
	if err != nil {
		return nil, err
	}
	return c, nil
}
