// Package harness is the per-process batch driver shared by all worlds:
// it runs seeds in synctest bubbles, collects coverage, minimises failing
// tapes and writes/reads replay files.
package harness

import (
	"syscall"
	"encoding/json"
	"fmt"
	"os"
	"runtime"
	"sort"
	"strings"
	"sync/atomic"
	"testing"
	"testing/synctest"
	"time"

	"github.com/foxcpp/maddy/internal/verifsim/simrt"
)

// Args is what the driver passes in VERIF_WORLD_ARGS.
type Args struct {
	Prop     string            `json:"prop"`
	World    string            `json:"world"`
	Mode     string            `json:"mode"` // batch | replay | one
	Tier     string            `json:"tier"`
	Seed     uint64            `json:"seed"`
	Start    int               `json:"start"`
	Count    int               `json:"count"`
	Stride   int               `json:"stride"`
	Out      string            `json:"out"`
	Replay   string            `json:"replay"`
	Knobs    map[string]int    `json:"knobs"`
	Verbose  bool              `json:"verbose"`
	MaxWallS int               `json:"max_wall_s"`
	MinimS   int               `json:"minimise_s"`
	Extra    map[string]string `json:"extra"`
}

// Result of one simulated run, filled by the world.
type Result struct {
	Seed       uint64
	Index      int
	Violations []simrt.Violation
	Harness    string // non-empty: harness trouble in this run
	EventHash  string
	SchedHash  string
	Shape      string // scenario-shape hash
	Stats      map[string]int
	Steps      int
	SimTime    time.Duration
	Nontrivial bool
	Sample     interface{}
	Trace      []string
	Tape       map[string][]int
	Knobs      map[string]int
	Ops        []string
}

// WorldFunc runs one scenario drawn from the tape inside a bubble.
type WorldFunc func(s *simrt.Sim, a *Args, r *Result)

// Expander returns additional knob sets to run with the same seed after a
// clean base run (e.g. one per crash point).
type Expander func(a *Args, base *Result, t *simrt.Tape) []map[string]int

// Expanders is filled by world packages (world name -> expander).
var Expanders = map[string]Expander{}

type ViolOut struct {
	Key       string           `json:"key"`
	Detail    string           `json:"detail"`
	Seed      uint64           `json:"seed"`
	Index     int              `json:"index"`
	EventHash string           `json:"event_hash"`
	Tape      map[string][]int `json:"tape"`
	Trace     []string         `json:"trace"`
	Knobs     map[string]int   `json:"knobs"`
	Minimised bool             `json:"minimised"`
	TapeLen   int              `json:"tape_len"`
	OrigLen   int              `json:"orig_tape_len"`
}

// Summary is what one worker process writes.
type Summary struct {
	Prop        string         `json:"prop"`
	World       string         `json:"world"`
	Runs        int            `json:"runs"`
	Nontrivial  int            `json:"nontrivial"`
	Distinct    []string       `json:"distinct"` // shape+sched+event hashes of nontrivial runs
	Scheds      []string       `json:"scheds"`
	Stats       map[string]int `json:"stats"`
	Steps       int            `json:"steps"`
	SimTimeS    float64        `json:"sim_time_s"`
	WallS       float64        `json:"wall_s"`
	Violations  []ViolOut      `json:"violations"`
	Samples     []interface{}  `json:"samples"`
	HarnessErrs []string       `json:"harness_errors"`
	Leaks       int            `json:"bubble_leaks"`
	FirstSeed   uint64         `json:"first_seed"`
	Hashes      []string       `json:"hashes,omitempty"`
	// ResumeAt > 0: the process stopped before run number ResumeAt of its share
	// because it had accumulated too much memory; the driver starts a fresh
	// process there.
	ResumeAt int `json:"resume_at,omitempty"`
}

// memHigh: goroutines that a crashed incarnation left blocked on a native
// channel cannot be ended from outside; they stay (with everything they
// reference) until the process exits. The worker watches its live memory and
// hands over to a fresh process when it grows.
func memHigh() bool {
	const limit = 768 << 20
	var ms runtime.MemStats
	runtime.ReadMemStats(&ms)
	if ms.HeapAlloc+ms.StackInuse < limit {
		return false
	}
	runtime.GC()
	runtime.ReadMemStats(&ms)
	return ms.HeapAlloc+ms.StackInuse >= limit
}

var lastBeat atomic.Int64
var curRun atomic.Value

// cpuNow is the CPU time (user + system, all threads) this process has used.
func cpuNow() time.Duration {
	var ru syscall.Rusage
	if syscall.Getrusage(syscall.RUSAGE_SELF, &ru) != nil {
		return 0
	}
	return time.Duration(ru.Utime.Nano() + ru.Stime.Nano())
}

// watchdog ends the process (exit 2, never a verdict) when one run makes no
// progress.  "No progress" is measured in CPU time the process actually got:
// on a machine whose cores are all taken by other work a run can legitimately
// need minutes of wall-clock time, and a wall-clock limit alone turned such
// runs into harness errors (seen with load averages above 100).  A run that
// spins is stopped after `limit` of CPU time; one that is blocked without
// using any CPU after 15 times the limit of wall-clock time.
func watchdog(limit time.Duration) {
	var seenBeat int64
	var cpuAtBeat time.Duration
	for {
		time.Sleep(2 * time.Second)
		lb := lastBeat.Load()
		if lb == 0 {
			continue
		}
		if lb != seenBeat {
			seenBeat, cpuAtBeat = lb, cpuNow()
			continue
		}
		wall := time.Since(time.Unix(0, lb))
		cpu := cpuNow() - cpuAtBeat
		if wall > limit && (cpu > limit || wall > 15*limit) {
			buf := make([]byte, 1<<20)
			n := runtime.Stack(buf, true)
			fmt.Fprintf(os.Stderr, "HARNESS-ERROR: watchdog: run %v made no progress for %v (cpu %v)\n%s\n", curRun.Load(), wall.Round(time.Second), cpu.Round(time.Second), buf[:n])
			os.Exit(2)
		}
	}
}

// runOne executes the world once on the given tape.
func runOne(t *testing.T, tape *simrt.Tape, a *Args, w WorldFunc, seed uint64, idx int, keepTrace ...bool) (res Result, leaked bool) {
	res = Result{Seed: seed, Index: idx}
	lastBeat.Store(time.Now().UnixNano())
	curRun.Store(fmt.Sprintf("seed=%d idx=%d", seed, idx))
	if a.Out != "" && tape != nil {
		// breadcrumb for the driver: which run was in progress if the process
		// dies from a panic in a goroutine the harness does not own
		// (a tape that is being replayed - minimisation - goes in too, so
		// that a crash in that phase can be reproduced)
		b, _ := json.Marshal(map[string]interface{}{"seed": seed, "index": idx, "knobs": a.Knobs, "replay": tape.IsReplay(), "tape": tape.Input()})
		os.WriteFile(a.Out+".cur", b, 0o644)
	}
	func() {
		defer func() {
			if r := recover(); r != nil {
				msg := fmt.Sprint(r)
				if strings.Contains(msg, "deadlock") && strings.Contains(msg, "bubble") {
					leaked = true
					if os.Getenv("VERIF_DEBUG_LEAK") != "" {
						buf := make([]byte, 1<<22)
						n := runtime.Stack(buf, true)
						fmt.Fprintf(os.Stderr, "LEAK in run %v: %s\n%s\n", curRun.Load(), msg, buf[:n])
						os.Exit(3)
					}
					return
				}
				if he, ok := r.(simrt.HarnessError); ok {
					res.Harness = he.Error()
					return
				}
				buf := make([]byte, 1<<16)
				n := runtime.Stack(buf, false)
				res.Harness = fmt.Sprintf("panic in controller: %v\n%s", r, buf[:n])
			}
		}()
		synctest.Test(t, func(t *testing.T) {
			s := simrt.New(tape)
			s.Prop = a.Prop
			s.Verbose = a.Verbose
			s.KeepTrace = len(keepTrace) > 0 && keepTrace[0]
			defer func() {
				// collect before tearing down
				if r := recover(); r != nil {
					if he, ok := r.(simrt.HarnessError); ok {
						res.Harness = he.Error()
					} else {
						buf := make([]byte, 1<<16)
						n := runtime.Stack(buf, false)
						res.Harness = fmt.Sprintf("panic in world: %v\n%s", r, buf[:n])
					}
				}
				res.Violations = s.Violations()
				res.EventHash = s.EventHash()
				res.SchedHash = s.SchedHash()
				res.Stats = s.Stats()
				res.Steps = s.Steps()
				res.SimTime = s.Now()
				res.Tape = tape.Recorded()
				if s.KeepTrace {
					res.Trace = s.Trace()
				}
				for _, p := range s.Panics() {
					if p.Func == "HARNESS" {
						res.Harness = p.Value
					}
				}
				s.Shutdown()
				s.Release()
				simrt.ClearLabels()
			}()
			w(s, a, &res)
		})
	}()
	lastBeat.Store(0)
	return
}

// trimTape drops trailing zeros of every stream (an exhausted stream reads 0).
func trimTape(m map[string][]int) map[string][]int {
	out := map[string][]int{}
	for k, v := range m {
		n := len(v)
		for n > 0 && v[n-1] == 0 {
			n--
		}
		if n > 0 {
			out[k] = append([]int(nil), v[:n]...)
		}
	}
	return out
}

func tapeLen(m map[string][]int) int {
	n := 0
	for _, v := range trimTape(m) {
		n += len(v)
	}
	return n
}

func tapeSum(m map[string][]int) int {
	n := 0
	for _, v := range m {
		for _, x := range v {
			n += x
		}
	}
	return n
}

func tapeLess(a, b map[string][]int) bool {
	la, lb := tapeLen(a), tapeLen(b)
	if la != lb {
		return la < lb
	}
	return tapeSum(a) < tapeSum(b)
}

func cloneTape(m map[string][]int) map[string][]int {
	out := map[string][]int{}
	for k, v := range m {
		out[k] = append([]int(nil), v...)
	}
	return out
}

// minimise shrinks a failing tape while the same violation key persists.
func minimise(t *testing.T, a *Args, w WorldFunc, first Result, key string, budget time.Duration) (Result, bool) {
	best := first
	deadline := time.Now().Add(budget)
	try := func(cand map[string][]int) bool {
		if time.Now().After(deadline) {
			return false
		}
		t0 := time.Now()
		r, _ := runOne(t, simrt.ReplayTape(cand), a, w, first.Seed, first.Index)
		if os.Getenv("VERIF_DEBUG_MIN") != "" {
			fmt.Fprintf(os.Stderr, "min: %v took %v\n", time.Now().Format("05.000"), time.Since(t0))
			var ks []string
			for _, v := range r.Violations {
				ks = append(ks, v.Key)
			}
			fmt.Fprintf(os.Stderr, "min: cand len=%d -> keys=%v harness=%q steps=%d\n", tapeLen(cand), ks, r.Harness, r.Steps)
		}
		if r.Harness != "" {
			return false
		}
		for _, v := range r.Violations {
			if v.Key == key {
				// keep the *recorded* tape of the successful candidate (what
				// was actually consumed), but only if it is a real reduction
				r.Tape = trimTape(r.Tape)
				if !tapeLess(r.Tape, best.Tape) {
					return false
				}
				best = r
				return true
			}
		}
		return false
	}
	best.Tape = trimTape(best.Tape)
	cur := cloneTape(best.Tape)
	improved := true
	for improved && time.Now().Before(deadline) {
		improved = false
		for _, st := range simrt.Streams(cur) {
			arr := cur[st]
			// 1. truncate tail (exhausted stream reads 0)
			for n := len(arr); n > 0; n /= 2 {
				if len(cur[st]) < n {
					continue
				}
				cand := cloneTape(cur)
				cand[st] = cand[st][:len(cand[st])-n]
				if try(cand) {
					cur = cloneTape(best.Tape)
					improved = true
				}
			}
			// 2. delete blocks
			for size := len(cur[st]) / 2; size >= 1; size /= 2 {
				for i := 0; i+size <= len(cur[st]); {
					cand := cloneTape(cur)
					cand[st] = append(append([]int(nil), cand[st][:i]...), cand[st][i+size:]...)
					if try(cand) {
						cur = cloneTape(best.Tape)
						improved = true
					} else {
						i += size
					}
					if time.Now().After(deadline) {
						break
					}
				}
			}
			// 3. zero / lower single values
			for i := 0; i < len(cur[st]); i++ {
				if cur[st][i] == 0 {
					continue
				}
				for _, nv := range []int{0, cur[st][i] / 2, cur[st][i] - 1} {
					if nv >= cur[st][i] || nv < 0 {
						continue
					}
					cand := cloneTape(cur)
					cand[st][i] = nv
					if try(cand) {
						cur = cloneTape(best.Tape)
						improved = true
						break
					}
				}
				if time.Now().After(deadline) {
					break
				}
				if i >= len(cur[st]) {
					break
				}
			}
		}
	}
	return best, tapeLess(best.Tape, first.Tape)
}

// ReplayFile is the on-disk replay format.
type ReplayFile struct {
	Property     string            `json:"property"`
	World        string            `json:"world"`
	Tier         string            `json:"tier"`
	Seed         uint64            `json:"seed"`
	Index        int               `json:"index"`
	Knobs        map[string]int    `json:"knobs"`
	Extra        map[string]string `json:"extra"`
	Tape         map[string][]int  `json:"tape"`
	ViolationKey string            `json:"violation_key"`
	Detail       string            `json:"detail"`
	EventHash    string            `json:"event_hash"`
	Trace        []string          `json:"trace"`
	RepoHead     string            `json:"repo_head"`
	Go           string            `json:"go"`
}

// Main is called from each world's TestSim.
func Main(t *testing.T, worlds map[string]WorldFunc) {
	raw := os.Getenv("VERIF_WORLD_ARGS")
	if raw == "" {
		t.Skip("VERIF_WORLD_ARGS not set")
	}
	var a Args
	if err := json.Unmarshal([]byte(raw), &a); err != nil {
		fmt.Fprintf(os.Stderr, "HARNESS-ERROR: bad VERIF_WORLD_ARGS: %v\n", err)
		os.Exit(2)
	}
	w := worlds[a.World]
	if w == nil {
		fmt.Fprintf(os.Stderr, "HARNESS-ERROR: unknown world %q\n", a.World)
		os.Exit(2)
	}
	if a.Knobs == nil {
		a.Knobs = map[string]int{}
	}
	go watchdog(40 * time.Second)

	switch a.Mode {
	case "replay":
		b, err := os.ReadFile(a.Replay)
		if err != nil {
			fmt.Fprintf(os.Stderr, "HARNESS-ERROR: %v\n", err)
			os.Exit(2)
		}
		var rf ReplayFile
		if err := json.Unmarshal(b, &rf); err != nil {
			fmt.Fprintf(os.Stderr, "HARNESS-ERROR: %v\n", err)
			os.Exit(2)
		}
		a.Knobs = rf.Knobs
		if a.Knobs == nil {
			a.Knobs = map[string]int{}
		}
		a.Extra = rf.Extra
		a.Tier = rf.Tier
		r, _ := runOne(t, simrt.ReplayTape(rf.Tape), &a, w, rf.Seed, rf.Index, true)
		out := map[string]interface{}{"reproduced": false, "event_hash": r.EventHash, "expected_hash": rf.EventHash, "harness": r.Harness}
		for _, v := range r.Violations {
			if v.Key == rf.ViolationKey {
				out["reproduced"] = true
				out["key"] = v.Key
				out["detail"] = v.Detail
			}
		}
		out["hash_match"] = r.EventHash == rf.EventHash
		var keys []string
		for _, v := range r.Violations {
			keys = append(keys, v.Key)
		}
		out["keys"] = keys
		if a.Verbose {
			out["trace"] = r.Trace
		}
		b, _ = json.MarshalIndent(out, "", " ")
		os.WriteFile(a.Out, b, 0o644)
		return
	}

	if a.Mode == "one" {
		seed := simrt.Mix(a.Seed, uint64(a.Start))
		r, _ := runOne(t, simrt.NewTape(seed), &a, w, seed, a.Start, true)
		b, _ := json.MarshalIndent(map[string]interface{}{"trace": r.Trace, "event_hash": r.EventHash, "sched_hash": r.SchedHash, "violations": r.Violations, "harness": r.Harness, "sample": r.Sample, "stats": r.Stats}, "", " ")
		os.WriteFile(a.Out, b, 0o644)
		return
	}
	start := time.Now()
	sum := Summary{Prop: a.Prop, World: a.World, Stats: map[string]int{}}
	distinct := map[string]bool{}
	scheds := map[string]bool{}
	seenKeys := map[string]bool{}
	stride := a.Stride
	if stride <= 0 {
		stride = 1
	}
	maxWall := time.Duration(a.MaxWallS) * time.Second
	process := func(seed uint64, idx int, knobs map[string]int) *Result {
		aa := a
		aa.Knobs = map[string]int{}
		for k, v := range a.Knobs {
			aa.Knobs[k] = v
		}
		for k, v := range knobs {
			aa.Knobs[k] = v
		}
		tape := simrt.NewTape(seed)
		// VERIF_TRACE_IDX=<n>: keep and dump the trace of run n of a batch
		// (to compare a run whose hash differs between two batches)
		traceThis := os.Getenv("VERIF_TRACE_IDX") == fmt.Sprint(idx) || os.Getenv("VERIF_TRACE_IDX") == "all"
		r, leaked := runOne(t, tape, &aa, w, seed, idx, traceThis)
		if traceThis {
			os.WriteFile(fmt.Sprintf("%s.trace%d", a.Out, idx), []byte(r.EventHash+"\n"+strings.Join(r.Trace, "\n")+"\n"), 0o644)
		}
		if leaked {
			sum.Leaks++
		}
		sum.Runs++
		sum.Steps += r.Steps
		sum.SimTimeS += r.SimTime.Seconds()
		for k, v := range r.Stats {
			sum.Stats[k] += v
		}
		if r.Harness != "" {
			sum.HarnessErrs = append(sum.HarnessErrs, fmt.Sprintf("seed=%d idx=%d knobs=%v: %s", seed, idx, knobs, r.Harness))
			return nil
		}
		if r.Nontrivial {
			sum.Nontrivial++
			distinct[r.Shape+"/"+r.SchedHash+"/"+r.EventHash] = true
		}
		scheds[r.SchedHash] = true
		if a.Extra["hashes"] != "" {
			sum.Hashes = append(sum.Hashes, fmt.Sprintf("%d/%v:%s:%s:%d", idx, knobs, r.EventHash, r.SchedHash, r.Steps))
		}
		if len(sum.Samples) < 3 && r.Sample != nil && r.Nontrivial {
			sum.Samples = append(sum.Samples, r.Sample)
		}
		for _, v := range r.Violations {
			if seenKeys[v.Key] {
				continue
			}
			seenKeys[v.Key] = true
			vo := ViolOut{Key: v.Key, Detail: v.Detail, Seed: seed, Index: idx, EventHash: r.EventHash, Tape: r.Tape, Trace: r.Trace, Knobs: aa.Knobs, OrigLen: tapeLen(r.Tape)}
			bud := time.Duration(a.MinimS) * time.Second
			if bud > 0 {
				best, ok := minimise(t, &aa, w, r, v.Key, bud)
				if ok {
					vo.Minimised = true
					vo.Tape = best.Tape
				}
			}
			// one final replay: the stored hash, detail and trace are those of
			// the replayed execution of the stored tape
			{
				rr, _ := runOne(t, simrt.ReplayTape(vo.Tape), &aa, w, seed, idx, true)
				vo.EventHash = rr.EventHash
				vo.Trace = rr.Trace
				found := false
				for _, bv := range rr.Violations {
					if bv.Key == v.Key {
						vo.Detail = bv.Detail
						found = true
					}
				}
				if !found {
					sum.HarnessErrs = append(sum.HarnessErrs, fmt.Sprintf("seed=%d idx=%d: violation %s did not reproduce from its own tape (nondeterminism)", seed, idx, v.Key))
				}
			}
			vo.TapeLen = tapeLen(vo.Tape)
			sum.Violations = append(sum.Violations, vo)
		}
		return &r
	}
	lastMemCheck := 0
	for i := 0; i < a.Count; i++ {
		if maxWall > 0 && time.Since(start) > maxWall {
			break
		}
		if sum.Runs-lastMemCheck >= 32 {
			lastMemCheck = sum.Runs
			if memHigh() {
				sum.ResumeAt = i
				break
			}
		}
		if len(sum.HarnessErrs) > 3 {
			break
		}
		idx := a.Start + i*stride
		seed := simrt.Mix(a.Seed, uint64(idx))
		if i == 0 {
			sum.FirstSeed = seed
		}
		base := process(seed, idx, nil)
		if ex := Expanders[a.World]; ex != nil && base != nil && len(base.Violations) == 0 && a.Extra["expand"] != "" {
			sum.Stats["scenarios_expanded"]++
			for _, kn := range ex(&a, base, simrt.NewTape(seed^0x5bd1e995)) {
				if maxWall > 0 && time.Since(start) > 2*maxWall {
					break
				}
				process(seed, idx, kn)
			}
		}
	}
	for k := range distinct {
		sum.Distinct = append(sum.Distinct, k)
	}
	sort.Strings(sum.Distinct)
	for k := range scheds {
		sum.Scheds = append(sum.Scheds, k)
	}
	sort.Strings(sum.Scheds)
	sum.WallS = time.Since(start).Seconds()
	b, _ := json.Marshal(sum)
	if err := os.WriteFile(a.Out, b, 0o644); err != nil {
		fmt.Fprintf(os.Stderr, "HARNESS-ERROR: %v\n", err)
		os.Exit(2)
	}
}
