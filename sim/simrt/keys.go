package simrt

import (
	"fmt"
	"reflect"
	"sort"
	"unsafe"
)

// Labeler may be implemented by map keys that have a stable name.
type Labeler interface{ SimLabel() string }

type instNamer interface{ InstanceName() string }
type namer interface{ Name() string }

var labels = map[interface{}]string{}

// SetLabel registers a stable label for a pointer/interface map key.
func SetLabel(k interface{}, l string) {
	if s := Cur(); s != nil {
		s.mu.Lock()
		defer s.mu.Unlock()
	}
	labels[k] = l
}

// ClearLabels forgets all registered labels (between runs).
func ClearLabels() { labels = map[interface{}]string{} }

func labelOf(k interface{}) (string, bool) {
	switch v := k.(type) {
	case string:
		return "s:" + v, true
	case fmt.Stringer:
		_ = v
	}
	rv := reflect.ValueOf(k)
	switch rv.Kind() {
	case reflect.Int, reflect.Int8, reflect.Int16, reflect.Int32, reflect.Int64:
		return fmt.Sprintf("i:%020d", rv.Int()+(1<<62)), true
	case reflect.Uint, reflect.Uint8, reflect.Uint16, reflect.Uint32, reflect.Uint64:
		return fmt.Sprintf("u:%020d", rv.Uint()), true
	case reflect.String:
		return "s:" + rv.String(), true
	case reflect.Bool:
		return fmt.Sprintf("b:%v", rv.Bool()), true
	case reflect.Struct, reflect.Array:
		// value types without pointers print deterministically
		return fmt.Sprintf("v:%v", k), true
	}
	if s := Cur(); s != nil {
		s.mu.Lock()
		l, ok := labels[k]
		s.mu.Unlock()
		if ok {
			return "l:" + l, true
		}
	} else if l, ok := labels[k]; ok {
		return "l:" + l, true
	}
	if l, ok := k.(Labeler); ok {
		return "l:" + l.SimLabel(), true
	}
	if l, ok := k.(instNamer); ok && l.InstanceName() != "" {
		n := ""
		if nn, ok := k.(namer); ok {
			n = nn.Name()
		}
		return "m:" + n + "/" + l.InstanceName(), true
	}
	// structural label: walk the value and collect the labels of everything
	// nameable inside it (e.g. a routing block is named by its targets)
	var sb []byte
	if deepLabel(rv, 0, &sb) && len(sb) > 0 {
		return "d:" + string(sb), true
	}
	return "", false
}

// deepLabel appends a deterministic description of v; it reports false when v
// contains something that has no stable description (a bare pointer, func...).
func deepLabel(v reflect.Value, depth int, out *[]byte) bool {
	if depth > 5 {
		return true
	}
	if !v.IsValid() {
		*out = append(*out, '-')
		return true
	}
	if !v.CanInterface() && v.CanAddr() {
		// reached through an unexported field: re-derive an interfaceable
		// value so that labelled objects inside are recognised
		v = reflect.NewAt(v.Type(), unsafe.Pointer(v.UnsafeAddr())).Elem()
	}
	if v.CanInterface() {
		switch x := v.Interface().(type) {
		case Labeler:
			if v.Kind() != reflect.Ptr || !v.IsNil() {
				*out = append(*out, x.SimLabel()...)
				return true
			}
		case instNamer:
			if (v.Kind() != reflect.Ptr || !v.IsNil()) && x.InstanceName() != "" {
				*out = append(*out, x.InstanceName()...)
				return true
			}
		case error:
			if v.Kind() != reflect.Ptr || !v.IsNil() {
				*out = append(*out, x.Error()...)
				return true
			}
		}
	}
	switch v.Kind() {
	case reflect.Ptr, reflect.Interface:
		if v.IsNil() {
			*out = append(*out, '-')
			return true
		}
		return deepLabel(v.Elem(), depth+1, out)
	case reflect.Struct:
		*out = append(*out, '{')
		for i := 0; i < v.NumField(); i++ {
			if !deepLabel(v.Field(i), depth+1, out) {
				return false
			}
			*out = append(*out, ';')
		}
		*out = append(*out, '}')
		return true
	case reflect.Slice, reflect.Array:
		*out = append(*out, '[')
		for i := 0; i < v.Len(); i++ {
			if !deepLabel(v.Index(i), depth+1, out) {
				return false
			}
			*out = append(*out, ',')
		}
		*out = append(*out, ']')
		return true
	case reflect.String:
		*out = append(*out, v.String()...)
		return true
	case reflect.Int, reflect.Int8, reflect.Int16, reflect.Int32, reflect.Int64:
		*out = append(*out, fmt.Sprint(v.Int())...)
		return true
	case reflect.Uint, reflect.Uint8, reflect.Uint16, reflect.Uint32, reflect.Uint64:
		*out = append(*out, fmt.Sprint(v.Uint())...)
		return true
	case reflect.Bool:
		*out = append(*out, fmt.Sprint(v.Bool())...)
		return true
	case reflect.Map:
		// not descended into (order would matter); length only
		*out = append(*out, fmt.Sprintf("map%d", v.Len())...)
		return true
	case reflect.Func, reflect.Chan, reflect.UnsafePointer:
		*out = append(*out, '?')
		return true
	}
	return true
}

// SortedKeys returns the keys of m in an order that depends on the keys only.
func SortedKeys[K comparable, V any](m map[K]V) []K {
	type kl struct {
		k K
		l string
	}
	ks := make([]kl, 0, len(m))
	unl := 0
	for k := range m {
		l, ok := labelOf(k)
		if !ok {
			unl++
			l = fmt.Sprintf("z:%T", k)
		}
		ks = append(ks, kl{k, l})
	}
	if unl > 1 {
		if s := Cur(); s != nil {
			s.Stat("unordered_map_iterations")
		}
	}
	if unl > 1 {
		if s := Cur(); s != nil {
			s.Stat(fmt.Sprintf("unordered:%T", ks[0].k))
		}
	}
	sort.SliceStable(ks, func(i, j int) bool { return ks[i].l < ks[j].l })
	out := make([]K, len(ks))
	for i, k := range ks {
		out[i] = k.k
	}
	return out
}

// ZeroOf returns the zero value of a channel's element type (used by the
// rewritten select statements to declare stash variables).
func ZeroOf[T any](ch <-chan T) (z T) { return }

// TryRecv is a non-blocking receive.
func TryRecv[T any](ch <-chan T) (v T, ok bool, got bool) {
	select {
	case v, ok = <-ch:
		return v, ok, true
	default:
		return v, false, false
	}
}

// TrySend is a non-blocking send.
func TrySend[T any](ch chan<- T, v T) bool {
	select {
	case ch <- v:
		return true
	default:
		return false
	}
}

// SelectOrder returns the order in which a rewritten select probes its n
// communication cases: a tape-chosen rotation (0 = source order).
func SelectOrder(site string, n int) []int {
	start := 0
	if s := Cur(); s != nil && n > 1 {
		start = s.T.Choose("select", n)
		if start != 0 {
			s.Stat("select_rotated")
		}
	}
	out := make([]int, n)
	for i := range out {
		out[i] = (start + i) % n
	}
	return out
}
