// Package simrt is the deterministic simulation runtime: choice tape,
// event log, task registry and the one-decision-at-a-time controller that
// runs inside a testing/synctest bubble.
package simrt

import (
	"sort"
	"sync"
)

// splitmix64
type rng struct{ s uint64 }

func (r *rng) next() uint64 {
	r.s += 0x9e3779b97f4a7c15
	z := r.s
	z = (z ^ (z >> 30)) * 0xbf58476d1ce4e5b9
	z = (z ^ (z >> 27)) * 0x94d049bb133111eb
	return z ^ (z >> 31)
}

// Mix derives a run seed from a batch seed and an index.
func Mix(seed uint64, i uint64) uint64 {
	r := rng{s: seed ^ (i+1)*0xd1342543de82ef95}
	r.next()
	return r.next()
}

func hashStr(s string) uint64 {
	var h uint64 = 1469598103934665603
	for i := 0; i < len(s); i++ {
		h ^= uint64(s[i])
		h *= 1099511628211
	}
	return h
}

// Tape is the single source of every choice made in a run. It is organised
// in named streams so that shrinking one kind of choice (say the schedule)
// does not shift the meaning of another (say the generated scenario).
//
// Generation mode: draws come from a per-stream splitmix64 seeded from
// (seed, stream name) and are recorded. Replay mode: draws come from the
// recorded arrays; an exhausted stream yields 0, which by convention is
// always the simplest option (no fault, first task, smallest size).
type Tape struct {
	mu     sync.Mutex
	Seed   uint64
	replay bool
	rngs   map[string]*rng
	rec    map[string][]int
	in     map[string][]int
	pos    map[string]int
}

func NewTape(seed uint64) *Tape {
	return &Tape{Seed: seed, rngs: map[string]*rng{}, rec: map[string][]int{}, pos: map[string]int{}}
}

func ReplayTape(in map[string][]int) *Tape {
	t := &Tape{replay: true, in: in, rec: map[string][]int{}, pos: map[string]int{}, rngs: map[string]*rng{}}
	return t
}

// Choose returns a value in [0,n). n<=1 returns 0 without consuming a draw.
func (t *Tape) Choose(stream string, n int) int {
	if n <= 1 {
		return 0
	}
	t.mu.Lock()
	defer t.mu.Unlock()
	var v int
	if t.replay {
		arr := t.in[stream]
		p := t.pos[stream]
		if p < len(arr) {
			v = arr[p]
			if v < 0 {
				v = -v
			}
			v %= n
		}
		t.pos[stream] = p + 1
	} else {
		r := t.rngs[stream]
		if r == nil {
			r = &rng{s: t.Seed ^ hashStr(stream)}
			r.next()
			t.rngs[stream] = r
		}
		v = int(r.next() % uint64(n))
	}
	t.rec[stream] = append(t.rec[stream], v)
	return v
}

// Bool is true with probability num/den. A recorded 0 always means false.
func (t *Tape) Bool(stream string, num, den int) bool {
	if num <= 0 {
		return false
	}
	if num >= den {
		// still a draw so that the tape layout does not depend on knobs
		t.Choose(stream, den)
		return true
	}
	return t.Choose(stream, den) >= den-num
}

// Range returns a value in [lo,hi].
func (t *Tape) Range(stream string, lo, hi int) int {
	if hi <= lo {
		return lo
	}
	return lo + t.Choose(stream, hi-lo+1)
}

// IsReplay reports whether the tape replays recorded draws.
func (t *Tape) IsReplay() bool { return t.replay }

// Input returns the recorded arrays a replay tape draws from (nil in
// generation mode).
func (t *Tape) Input() map[string][]int { return t.in }

// Recorded returns a copy of everything drawn so far.
func (t *Tape) Recorded() map[string][]int {
	t.mu.Lock()
	defer t.mu.Unlock()
	out := map[string][]int{}
	for k, v := range t.rec {
		out[k] = append([]int(nil), v...)
	}
	return out
}

// Streams returns the sorted stream names of a recorded tape.
func Streams(m map[string][]int) []string {
	var ks []string
	for k := range m {
		ks = append(ks, k)
	}
	sort.Strings(ks)
	return ks
}
