package simrt

import (
	"io"
	"crypto/sha256"
	"encoding/hex"
	"fmt"
	"runtime"
	"sort"
	"strings"
	"sync"
	"sync/atomic"
	"testing/synctest"
	"time"
)

// Inc is one incarnation of the simulated process. Killing it makes every
// goroutine that belongs to it stop at its next simulation point.
type Inc struct {
	ID   int
	dead atomic.Bool
}

func (i *Inc) Dead() bool { return i != nil && i.dead.Load() }

type Task struct {
	Name  string
	Inc   *Inc
	nkids int
	sim   *Sim
}

type waiter struct {
	task  *Task
	key   string
	site  string
	res   string
	spin  bool
	gen   int
	seq   int
	ch    chan int
	label string
}

const (
	cmdRun  = 1
	cmdKill = 2
)

type Violation struct {
	Key    string
	Detail string
	Step   int
}

type PanicRec struct {
	Task  string
	Value string
	Func  string
	Stack string
}

// Sim is one simulated run. Exactly one Sim is current in a process at a time.
type Sim struct {
	T *Tape

	mu       sync.Mutex
	parked   []*waiter
	arrive   chan struct{}
	tasks    map[uint64]*Task
	events   []string
	viols    []Violation
	panics   []PanicRec
	stats    map[string]int
	idNames  map[string]string
	anonKids map[string]int
	// Prop is the property the current run is judged for (prefix of keys
	// reported by the runtime itself); held: guard locks per goroutine.
	Prop string
	held map[uint64]map[any]int
	// goroutines the simulator is unwinding with Goexit
	dying sync.Map

	step     int
	MaxSteps int
	gen      int
	seq      int
	lastKey  string
	closing  atomic.Bool
	done     chan struct{} // closed by Shutdown
	onShut   []func()
	ctrl     uint64
	start    time.Time
	schedH   [32]byte
	preempts int

	// schedule knobs (drawn per run by the world)
	PreemptBudget int // -1: random walk
	PreemptNum    int
	PreemptDen    int
	TimeNum       int // probability that "let time pass" is taken although tasks are ready
	TimeDen       int
	TimeLadder    []time.Duration
	TimeBudget    int // at most this many "time first" decisions per run
	// LateStarts: a goroutine that was just started gets to run only when no
	// other task can (the runtime is free to start it arbitrarily late)
	LateStarts bool
	timeFirsts int

	Verbose bool
	// KeepTrace records scheduling decisions next to boundary events for the
	// human-readable trace of a replay file.
	KeepTrace bool
	trace     []string
}

var cur atomic.Pointer[Sim]

// Cur returns the current simulation or nil.
func Cur() *Sim { return cur.Load() }

// HarnessError is panicked for conditions that are the harness's fault.
type HarnessError struct{ Msg string }

func (h HarnessError) Error() string { return "HARNESS-ERROR: " + h.Msg }

func Harnessf(format string, a ...interface{}) {
	panic(HarnessError{fmt.Sprintf(format, a...)})
}

func goid() uint64 {
	var buf [64]byte
	n := runtime.Stack(buf[:], false)
	// "goroutine 123 ["
	var id uint64
	for i := len("goroutine "); i < n; i++ {
		c := buf[i]
		if c < '0' || c > '9' {
			break
		}
		id = id*10 + uint64(c-'0')
	}
	return id
}

// New creates a simulation and makes it current; the calling goroutine
// becomes the controller. Must be called inside a synctest bubble.
func New(t *Tape) *Sim {
	s := &Sim{
		T:          t,
		arrive:     make(chan struct{}, 1),
		done:       make(chan struct{}),
		tasks:      map[uint64]*Task{},
		stats:      map[string]int{},
		idNames:    map[string]string{},
		MaxSteps:   20000,
		PreemptDen: 1,
		TimeDen:    1,
		ctrl:       goid(),
		start:      time.Now(),
	}
	if !cur.CompareAndSwap(nil, s) {
		Harnessf("simrt.New: another simulation is current")
	}
	return s
}

// Release makes no simulation current (after Shutdown).
func (s *Sim) Release() { cur.CompareAndSwap(s, nil) }

func (s *Sim) Now() time.Duration { return time.Since(s.start) }

// ---------------------------------------------------------------- log

// Logf appends a boundary event to the event log.
func (s *Sim) Logf(format string, a ...interface{}) {
	msg := fmt.Sprintf(format, a...)
	s.mu.Lock()
	s.events = append(s.events, msg)
	if s.KeepTrace {
		s.trace = append(s.trace, fmt.Sprintf("[%d t=%v] %s", s.step, s.Now(), msg))
	}
	s.mu.Unlock()
	if s.Verbose {
		fmt.Printf("  [%6d %12v] %s\n", s.step, s.Now(), msg)
	}
}

// ID canonicalises a random identifier (first-appearance numbering).
func (s *Sim) ID(class, raw string) string {
	s.mu.Lock()
	defer s.mu.Unlock()
	k := class + ":" + raw
	if n, ok := s.idNames[k]; ok {
		return n
	}
	cnt := 0
	for kk := range s.idNames {
		if strings.HasPrefix(kk, class+":") {
			cnt++
		}
	}
	n := fmt.Sprintf("%s%d", class, cnt+1)
	s.idNames[k] = n
	return n
}

func (s *Sim) Events() []string {
	s.mu.Lock()
	defer s.mu.Unlock()
	return append([]string(nil), s.events...)
}

func (s *Sim) EventHash() string {
	s.mu.Lock()
	defer s.mu.Unlock()
	h := sha256.New()
	for _, e := range s.events {
		h.Write([]byte(e))
		h.Write([]byte{'\n'})
	}
	return hex.EncodeToString(h.Sum(nil))[:32]
}

// SchedHash identifies the sequence of scheduling decisions taken.
func (s *Sim) SchedHash() string { return hex.EncodeToString(s.schedH[:8]) }

func (s *Sim) Steps() int    { return s.step }
func (s *Sim) Preempts() int { return s.preempts }

// Stat increments a named counter (fault fired, probe hit).
func (s *Sim) Stat(name string) { s.StatN(name, 1) }
func (s *Sim) StatN(name string, n int) {
	s.mu.Lock()
	s.stats[name] += n
	s.mu.Unlock()
}
func (s *Sim) Stats() map[string]int {
	s.mu.Lock()
	defer s.mu.Unlock()
	out := map[string]int{}
	for k, v := range s.stats {
		out[k] = v
	}
	return out
}

// Violate records a property violation. key = <property>/<rule>[/<signature>].
func (s *Sim) Violate(key, format string, a ...interface{}) {
	d := fmt.Sprintf(format, a...)
	s.mu.Lock()
	s.viols = append(s.viols, Violation{Key: key, Detail: d, Step: s.step})
	s.mu.Unlock()
	s.Logf("VIOLATION %s: %s", key, d)
}

func (s *Sim) Violations() []Violation {
	s.mu.Lock()
	defer s.mu.Unlock()
	return append([]Violation(nil), s.viols...)
}

func (s *Sim) Panics() []PanicRec {
	s.mu.Lock()
	defer s.mu.Unlock()
	return append([]PanicRec(nil), s.panics...)
}

// ---------------------------------------------------------------- tasks

func (s *Sim) taskOf(id uint64) *Task {
	s.mu.Lock()
	t := s.tasks[id]
	s.mu.Unlock()
	return t
}

// CurTask returns the task of the calling goroutine (nil if not registered).
func (s *Sim) CurTask() *Task { return s.taskOf(goid()) }

// Spawn starts a named task in incarnation inc.
func (s *Sim) Spawn(name string, inc *Inc, f func()) {
	t := &Task{Name: name, Inc: inc, sim: s}
	s.spawn(t, f)
}

func (s *Sim) spawn(t *Task, f func()) {
	go func() {
		id := goid()
		s.mu.Lock()
		s.tasks[id] = t
		s.mu.Unlock()
		defer func() {
			s.mu.Lock()
			delete(s.tasks, id)
			s.mu.Unlock()
			if r := recover(); r != nil {
				if he, ok := r.(HarnessError); ok {
					s.mu.Lock()
					s.panics = append(s.panics, PanicRec{Task: t.Name, Value: he.Error(), Func: "HARNESS", Stack: string(stackTrim())})
					s.mu.Unlock()
					return
				}
				st := string(stackTrim())
				pr := PanicRec{Task: t.Name, Value: fmt.Sprint(r), Func: sutFunc(st), Stack: st}
				s.mu.Lock()
				s.panics = append(s.panics, pr)
				s.mu.Unlock()
				s.Logf("PANIC task=%s func=%s: %v", t.Name, pr.Func, r)
			}
		}()
		// first action of every task is a simulation point, so that a
		// freshly started goroutine never runs in parallel with its parent.
		s.park(t, "start", "", false)
		f()
	}()
}

func stackTrim() []byte {
	buf := make([]byte, 16384)
	n := runtime.Stack(buf, false)
	return buf[:n]
}

// sutFunc extracts the innermost maddy (non-harness) function from a stack.
func sutFunc(st string) string {
	for _, ln := range strings.Split(st, "\n") {
		ln = strings.TrimSpace(ln)
		if !strings.HasPrefix(ln, "github.com/foxcpp/maddy/") {
			continue
		}
		if strings.Contains(ln, "/verifsim/") {
			continue
		}
		fn := strings.TrimPrefix(ln, "github.com/foxcpp/maddy/")
		if i := strings.LastIndex(fn, "("); i > 0 {
			fn = fn[:i]
		}
		// drop closure suffixes such as .func1.2
		for {
			j := strings.LastIndex(fn, ".")
			if j < 0 {
				break
			}
			suf := fn[j+1:]
			if strings.HasPrefix(suf, "func") || isDigits(suf) {
				fn = fn[:j]
				continue
			}
			break
		}
		if i := strings.LastIndex(fn, "/"); i >= 0 {
			fn = fn[i+1:]
		}
		return fn
	}
	return "unknown"
}

func isDigits(s string) bool {
	if s == "" {
		return false
	}
	for _, c := range s {
		if c < '0' || c > '9' {
			return false
		}
	}
	return true
}

// Go is what a rewritten `go f()` statement of instrumented code calls.
func Go(site string, f func()) {
	s := Cur()
	if s == nil {
		go f()
		return
	}
	parent := s.CurTask()
	var t *Task
	if parent != nil {
		s.mu.Lock()
		parent.nkids++
		n := parent.nkids
		s.mu.Unlock()
		t = &Task{Name: fmt.Sprintf("%s/%s#%d", parent.Name, shortSite(site), n), Inc: parent.Inc, sim: s}
	} else {
		// anonymous parent: number the children per spawn site (independent of
		// the parking sequence counter, which is not schedule-stable)
		s.mu.Lock()
		if s.anonKids == nil {
			s.anonKids = map[string]int{}
		}
		s.anonKids[site]++
		n := s.anonKids[site]
		s.mu.Unlock()
		t = &Task{Name: fmt.Sprintf("~/%s#%d", shortSite(site), n), sim: s}
	}
	s.spawn(t, f)
}

func shortSite(site string) string { return site }

// ---------------------------------------------------------------- parking

// Yield is a scheduling point inserted into instrumented code.
func Yield(site string) {
	s := Cur()
	if s == nil {
		return
	}
	id := goid()
	if id == s.ctrl {
		return
	}
	s.park(s.taskOf(id), site, "", false)
}

// Point is a simulation point owned by a simulated resource (file system,
// network, scripted actor). res identifies the resource instance.
func Point(kind, res string) {
	s := Cur()
	if s == nil {
		return
	}
	id := goid()
	if id == s.ctrl {
		return
	}
	s.park(s.taskOf(id), kind, res, false)
}

// Lock is what a rewritten X.Lock() calls: a mutex wait is not durably
// blocking under synctest, so it becomes yield-and-TryLock.
func Lock(site string, try func() bool) {
	s := Cur()
	if s == nil || goid() == s.ctrl {
		for !try() {
			runtime.Gosched()
		}
		return
	}
	t := s.taskOf(goid())
	s.park(t, site, "", false)
	for !try() {
		s.Stat("lock_contended")
		s.park(t, site+":wait", "", true)
	}
}

// ---- lock discipline (guards)

// LockG is Lock for a mutex that guards a monitored structure: the runtime
// remembers that the calling goroutine holds it.
func LockG(site string, try func() bool, key any) {
	Lock(site, try)
	if s := Cur(); s != nil {
		id := goid()
		s.mu.Lock()
		if s.held == nil {
			s.held = map[uint64]map[any]int{}
		}
		if s.held[id] == nil {
			s.held[id] = map[any]int{}
		}
		s.held[id][key]++
		s.mu.Unlock()
	}
}

// MarkDying is called by simulated resources right before they end the calling
// goroutine with runtime.Goexit (crash of the simulated process).
func MarkDying() {
	if s := Cur(); s != nil {
		s.dying.Store(goid(), true)
	}
}

// Done returns a channel that is closed when the run is over (nil outside a
// simulation). The rewritten blocking channel operations of instrumented code
// wait on it as well, so that goroutines which no event of the run would ever
// wake up again (their simulated process crashed) end with the run instead of
// staying, with everything they reference, for the life of the worker
// process. It never fires before the verdict of the run has been collected.
func Done() <-chan struct{} {
	if s := Cur(); s != nil {
		return s.done
	}
	return nil
}

// OnShutdown registers f to be called when the run is over: simulated
// resources wake up the goroutines that wait inside them (they then leave
// through ExitShutdown).
func OnShutdown(f func()) {
	if s := Cur(); s != nil {
		s.mu.Lock()
		s.onShut = append(s.onShut, f)
		s.mu.Unlock()
	}
}

// Closing reports whether the run is over.
func Closing() bool {
	s := Cur()
	return s != nil && s.closing.Load()
}

// Sleep is time.Sleep for harness code: it ends the goroutine when the run is
// over (the clock of a bubble stops when its root function returns, so a
// plain sleeper would stay for ever).
func Sleep(d time.Duration) {
	t := time.NewTimer(d)
	select {
	case <-t.C:
	case <-Done():
		t.Stop()
		ExitShutdown()
	}
}

// ExitShutdown ends the calling goroutine (the run is over).
func ExitShutdown() {
	MarkDying()
	runtime.Goexit()
}

// SendOrExit is `ch <- v`.
func SendOrExit[T any](ch chan<- T, v T) {
	select {
	case ch <- v:
	case <-Done():
		ExitShutdown()
	}
}

// RecvOrExit is `<-ch`.
func RecvOrExit[T any](ch <-chan T) (v T) {
	select {
	case v = <-ch:
	case <-Done():
		ExitShutdown()
	}
	return v
}

// RecvOrExit2 is `v, ok := <-ch`.
func RecvOrExit2[T any](ch <-chan T) (v T, ok bool) {
	select {
	case v, ok = <-ch:
	case <-Done():
		ExitShutdown()
	}
	return v, ok
}

// Unlock releases a mutex unless the calling goroutine is being unwound by the
// simulator (killed while it waited in Lock: its deferred Unlock runs without
// the mutex being held).
func Unlock(unlock func()) {
	if s := Cur(); s != nil {
		if _, dying := s.dying.Load(goid()); dying {
			return
		}
	}
	unlock()
}

// UnlockG releases a guard lock.
func UnlockG(unlock func(), key any) {
	if s := Cur(); s != nil {
		id := goid()
		if _, dying := s.dying.Load(id); dying {
			return
		}
		s.mu.Lock()
		if m := s.held[id]; m != nil {
			if m[key]--; m[key] <= 0 {
				delete(m, key)
			}
		}
		s.mu.Unlock()
	}
	unlock()
}

// AssertHeld is inserted before every statement that touches a guarded
// structure: the calling goroutine must hold the structure's lock. A missing
// lock is a data race that a one-task-at-a-time scheduler can never observe
// through its symptoms, so the cause is checked instead.
func AssertHeld(name string, key any) {
	s := Cur()
	if s == nil {
		return
	}
	id := goid()
	if id == s.ctrl {
		return
	}
	s.mu.Lock()
	ok := s.held[id] != nil && s.held[id][key] > 0
	s.mu.Unlock()
	if ok {
		return
	}
	who := "~"
	if t := s.taskOf(id); t != nil {
		who = t.Name
	}
	s.Stat("guard_violation")
	s.Violate(s.Prop+"/unguarded-access/"+name, "task %s touches %s without holding the lock that guards it (a data race with every other user of the structure)", who, name)
}

func (s *Sim) park(t *Task, site, res string, spin bool) {
	if s.closing.Load() || (t != nil && t.Inc.Dead()) {
		s.dying.Store(goid(), true)
		runtime.Goexit()
	}
	name := "~"
	if t != nil {
		name = t.Name
	}
	w := &waiter{task: t, site: site, res: res, spin: spin, ch: make(chan int, 1)}
	w.key = name + "|" + site + "|" + res
	s.mu.Lock()
	s.seq++
	w.seq = s.seq
	w.gen = s.gen
	s.parked = append(s.parked, w)
	s.mu.Unlock()
	select {
	case s.arrive <- struct{}{}:
	default:
	}
	if <-w.ch == cmdKill {
		s.dying.Store(goid(), true)
		runtime.Goexit()
	}
}

// KillInc stops an incarnation: parked goroutines of it exit now, running or
// blocked ones exit at their next simulation point.
func (s *Sim) KillInc(inc *Inc) {
	inc.dead.Store(true)
	s.mu.Lock()
	var keep []*waiter
	for _, w := range s.parked {
		if w.task != nil && w.task.Inc == inc {
			w.ch <- cmdKill
		} else {
			keep = append(keep, w)
		}
	}
	s.parked = keep
	s.mu.Unlock()
}

// KillWhere kills parked waiters selected by f (used by resources that know
// a waiter belongs to a dead incarnation although its goroutine is anonymous).
func (s *Sim) KillWhere(f func(site, res string) bool) {
	s.mu.Lock()
	var keep []*waiter
	for _, w := range s.parked {
		if f(w.site, w.res) {
			w.ch <- cmdKill
		} else {
			keep = append(keep, w)
		}
	}
	s.parked = keep
	s.mu.Unlock()
}

// Shutdown ends the run: every parked goroutine exits, later points exit too.
func (s *Sim) Shutdown() {
	s.closing.Store(true)
	// goroutines blocked in a channel operation of instrumented code (e.g. of
	// an incarnation that "crashed" and is never closed) leave through this
	close(s.done)
	s.mu.Lock()
	hooks := s.onShut
	s.onShut = nil
	s.mu.Unlock()
	for _, f := range hooks {
		f()
	}
	for i := 0; i < 50; i++ {
		synctest.Wait()
		s.mu.Lock()
		n := len(s.parked)
		for _, w := range s.parked {
			w.ch <- cmdKill
		}
		s.parked = nil
		s.mu.Unlock()
		if n == 0 {
			break
		}
	}
	synctest.Wait()
}

// ---------------------------------------------------------------- controller

type StepResult int

const (
	Progress StepResult = iota
	Idle                // nothing runnable until the horizon
	Budget              // step budget exhausted
)

// Step takes one scheduling decision. idle is how much simulated time may
// pass without any task reaching a simulation point before the system is
// declared quiescent.
func (s *Sim) Step(idle time.Duration) StepResult {
	for {
		if s.step >= s.MaxSteps {
			return Budget
		}
		synctest.Wait()
		select {
		case <-s.arrive:
		default:
		}
		s.mu.Lock()
		var ready []*waiter
		for _, w := range s.parked {
			if w.spin && w.gen >= s.gen {
				continue
			}
			ready = append(ready, w)
		}
		s.mu.Unlock()
		if len(ready) == 0 {
			if idle <= 0 {
				return Idle
			}
			tm := time.NewTimer(idle)
			select {
			case <-s.arrive:
				tm.Stop()
			case <-tm.C:
				return Idle
			}
			continue
		}
		if s.LateStarts {
			// freshly started goroutines run only when nothing else can
			var others []*waiter
			for _, w := range ready {
				if w.site != "start" {
					others = append(others, w)
				}
			}
			if len(others) > 0 && len(others) < len(ready) {
				ready = others
				s.Stat("sched_late_start")
			}
		}
		sort.SliceStable(ready, func(i, j int) bool {
			if ready[i].key != ready[j].key {
				return ready[i].key < ready[j].key
			}
			return ready[i].seq < ready[j].seq
		})
		for i := 1; i < len(ready); i++ {
			if ready[i].key == ready[i-1].key {
				s.Stat("sched_key_ties")
				s.Stat("tie:" + ready[i].key)
			}
		}
		// "let time pass first"
		if s.TimeNum > 0 && len(s.TimeLadder) > 0 && s.timeFirsts < s.TimeBudget && s.T.Bool("timefirst", s.TimeNum, s.TimeDen) {
			s.timeFirsts++
			d := s.TimeLadder[s.T.Choose("timeladder", len(s.TimeLadder))]
			s.step++
			s.noteSched("time+" + d.String())
			s.Stat("sched_time_first")
			time.Sleep(d)
			continue
		}
		// default: continue the task that ran last (run to completion)
		def := 0
		for i, w := range ready {
			if w.task != nil && w.task.Name == s.lastKey {
				def = i
				break
			}
		}
		pick := def
		if len(ready) > 1 {
			switch {
			case s.PreemptBudget < 0:
				pick = s.T.Choose("sched", len(ready))
			case s.preempts < s.PreemptBudget && s.T.Bool("preempt", s.PreemptNum, s.PreemptDen):
				k := s.T.Choose("sched", len(ready)-1)
				if k >= def {
					k++
				}
				pick = k
			}
			if pick != def {
				s.preempts++
			}
		}
		w := ready[pick]
		s.mu.Lock()
		for i, p := range s.parked {
			if p == w {
				s.parked = append(s.parked[:i], s.parked[i+1:]...)
				break
			}
		}
		if !w.spin {
			// only real progress makes lock waiters worth re-trying
			s.gen++
		}
		s.mu.Unlock()
		s.step++
		if w.task != nil {
			s.lastKey = w.task.Name
		} else {
			s.lastKey = ""
		}
		s.noteSched(w.key)
		if s.Verbose {
			fmt.Printf("  [%6d %12v] run %s (of %d)\n", s.step, s.Now(), w.key, len(ready))
		}
		w.ch <- cmdRun
		return Progress
	}
}

// Trace returns boundary events interleaved with scheduling decisions.
func (s *Sim) Trace() []string {
	s.mu.Lock()
	defer s.mu.Unlock()
	return append([]string(nil), s.trace...)
}

func (s *Sim) noteSched(k string) {
	if s.KeepTrace {
		s.mu.Lock()
		s.trace = append(s.trace, fmt.Sprintf("[%d t=%v] run %s", s.step, s.Now(), k))
		s.mu.Unlock()
	}
	h := sha256.New()
	h.Write(s.schedH[:])
	h.Write([]byte(k))
	copy(s.schedH[:], h.Sum(nil))
}

// ParkedKeys lists what is parked now (diagnostics for hangs).
func (s *Sim) ParkedKeys() []string {
	s.mu.Lock()
	defer s.mu.Unlock()
	var out []string
	for _, w := range s.parked {
		out = append(out, w.key)
	}
	sort.Strings(out)
	return out
}

// Run steps until done() holds at quiescence, nothing happens for `idle` of
// simulated time, or the step budget is exhausted.
func (s *Sim) Run(idle time.Duration, done func() bool) StepResult {
	for {
		synctest.Wait()
		if done != nil && done() {
			return Progress
		}
		if len(s.Violations()) > 0 {
			return Progress
		}
		r := s.Step(idle)
		if r != Progress {
			synctest.Wait()
			if r == Idle && done != nil && done() {
				return Progress
			}
			return r
		}
	}
}

// AdoptCur is Adopt on the current simulation (no-op outside one). Inserted by
// the overlay where a dependency starts a goroutine that then enters
// instrumented code (go-smtp's BDAT data goroutine).
func AdoptCur(name string) {
	if s := Cur(); s != nil {
		s.Adopt(name)
	}
}

// Adopt registers the calling goroutine as a named task (no-op when it is
// already registered). Used by simulated resources to give goroutines started
// by non-instrumented code a stable identity.
func (s *Sim) Adopt(name string) {
	id := goid()
	if id == s.ctrl {
		return
	}
	s.mu.Lock()
	if _, ok := s.tasks[id]; !ok {
		s.tasks[id] = &Task{Name: name, sim: s}
	}
	s.mu.Unlock()
}

// YieldReader wraps the body reader handed to Session.Data/LMTPData: after
// every Read the goroutine yields. With BDAT the reader is an io.Pipe fed by
// the connection's goroutine; a Read that was blocked there is woken by the
// writer (or by Conn.Close) and would otherwise run side by side with the
// task that woke it until its next simulation point.
func YieldReader(r io.Reader, site string) io.Reader {
	if Cur() == nil {
		return r
	}
	return yieldReader{r, site}
}

type yieldReader struct {
	r    io.Reader
	site string
}

func (y yieldReader) Read(p []byte) (int, error) {
	n, err := y.r.Read(p)
	Yield(y.site)
	return n, err
}
