package smtp

import (
	"net"

	gosmtp "github.com/emersion/go-smtp"
	"github.com/foxcpp/maddy/internal/verifsim/simrt"

	"github.com/foxcpp/maddy/framework/dns"
	"github.com/foxcpp/maddy/internal/limits"
	"github.com/foxcpp/maddy/internal/msgpipeline"
)

// VerifServe serves the endpoint's go-smtp server on a simulated listener.
func (endp *Endpoint) VerifServe(l net.Listener) error { return endp.serv.Serve(l) }

// VerifSetResolver replaces the DNS resolver (must be called before Init so
// that the pipeline picks it up).
func (endp *Endpoint) VerifSetResolver(r dns.Resolver) { endp.resolver = r }

func (endp *Endpoint) VerifLimits() *limits.Group              { return endp.limits }
func (endp *Endpoint) VerifPipeline() *msgpipeline.MsgPipeline { return endp.pipeline }
func (endp *Endpoint) VerifCloseServer()                       { endp.serv.Close() }

func init() { gosmtp.VerifLock = simrt.Lock }
