package remote

import (
	"context"
	"crypto/x509"
	"net"

	"github.com/foxcpp/go-mtasts"
	"github.com/foxcpp/maddy/framework/dns"
	"github.com/foxcpp/maddy/internal/limits"
)

// VerifSeams replaces what the target reaches the outside world through:
// stub resolver, dialer, trusted roots, MTA-STS policy fetch and the
// DNSSEC-aware resolver (nil = DNSSEC/DANE unavailable, as on a host without
// a validating resolver).
func (rt *Target) VerifSeams(resolver dns.Resolver, dialer func(ctx context.Context, network, addr string) (net.Conn, error),
	roots *x509.CertPool, stsGet func(context.Context, string) (*mtasts.Policy, error), ext *dns.ExtResolver) {
	rt.resolver = resolver
	rt.dialer = dialer
	rt.extResolver = ext
	if rt.tlsConfig != nil {
		rt.tlsConfig.RootCAs = roots
	}
	for _, p := range rt.policies {
		switch pp := p.(type) {
		case *mtastsPolicy:
			pp.mtastsGet = stsGet
		case *danePolicy:
			pp.extResolver = ext
		}
	}
}

func (rt *Target) VerifLimits() *limits.Group { return rt.limits }

// VerifSetPort changes the SMTP port used for outbound connections.
func VerifSetPort(p string) { smtpPort = p }
