package dns

import (
	"context"

	"github.com/miekg/dns"
)

// VerifExchange, when set, answers the queries of ExtResolver instead of the
// network (the check build routes ExtResolver.exchange through verifExchange).
var VerifExchange func(ctx context.Context, msg *dns.Msg, server string) (*dns.Msg, error)

func verifExchange(cl *dns.Client, ctx context.Context, msg *dns.Msg, server string) (*dns.Msg, int, error) {
	if h := VerifExchange; h != nil {
		r, err := h(ctx, msg, server)
		return r, 0, err
	}
	r, rtt, err := cl.ExchangeContext(ctx, msg, server)
	return r, int(rtt), err
}

// VerifNewExtResolver builds an ExtResolver that asks the given server
// addresses in turn (the AD flag of an answer is trusted only if the server
// that gave it is a loopback address).
func VerifNewExtResolver(servers ...string) *ExtResolver {
	return &ExtResolver{cl: new(dns.Client), Cfg: &dns.ClientConfig{Servers: servers, Port: "53"}}
}
