package queue

import (
	"time"

	"github.com/foxcpp/maddy/framework/log"
	"github.com/foxcpp/maddy/framework/module"
)

// VerifConfig mirrors what the repository's own newTestQueueDir sets.
type VerifConfig struct {
	Location         string
	Target           module.DeliveryTarget
	Bounce           module.DeliveryTarget
	Hostname         string
	AutogenMsgDomain string
	InitialRetry     time.Duration
	RetryScale       float64
	MaxTries         int
	PostInitDelay    time.Duration
	Parallelism      int
	Log              log.Logger
}

// VerifNewQueue builds and starts a Queue like Init would, without the
// configuration parser.
func VerifNewQueue(c VerifConfig) (*Queue, error) {
	mod, _ := NewQueue("", "queue", nil, nil)
	q := mod.(*Queue)
	q.initialRetryTime = c.InitialRetry
	q.retryTimeScale = c.RetryScale
	q.postInitDelay = c.PostInitDelay
	q.maxTries = c.MaxTries
	q.location = c.Location
	q.Target = c.Target
	q.hostname = c.Hostname
	q.autogenMsgDomain = c.AutogenMsgDomain
	if c.Bounce != nil {
		q.dsnPipeline = c.Bounce
	}
	q.Log = c.Log
	if err := q.start(c.Parallelism); err != nil {
		return nil, err
	}
	return q, nil
}
