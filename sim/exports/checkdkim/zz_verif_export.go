package dkim

import "github.com/foxcpp/maddy/framework/dns"

// VerifSetResolver replaces the resolver used for key lookups.
func (c *Check) VerifSetResolver(r dns.Resolver) { c.resolver = r }
