package smtp

import "runtime"

// VerifLock, when set, acquires go-smtp's connection and server mutexes for the
// simulation: a goroutine that waits for one of them must wait at a simulation
// point (a goroutine blocked in sync.Mutex.Lock is not durably blocked, and the
// holder may be parked by the scheduler - e.g. Server.Close logging a session
// out while that session's command is still running).
var VerifLock func(site string, try func() bool)

func verifLock(try func() bool) {
	// The critical sections of these mutexes are a few instructions long
	// (getters and setters), except where Close holds one across
	// Session.Logout. Contention with a goroutine that is running right now
	// (both sides of an io.Pipe hand-over run side by side for a moment) must
	// stay invisible to the scheduler - it would otherwise see a lock wait or
	// not depending on real timing; only a holder that is parked at a
	// simulation point is waited for there.
	for i := 0; i < 50000; i++ {
		if try() {
			return
		}
		runtime.Gosched()
	}
	if f := VerifLock; f != nil {
		f("gosmtp:lock", try)
		return
	}
	for !try() {
		runtime.Gosched()
	}
}

// verifSortedConns: Server.Close walks a map of connections; the order in
// which it closes them (and logs their sessions out) must not depend on Go's
// randomized map iteration.
func verifSortedConns(m map[*Conn]struct{}) []*Conn {
	var cs []*Conn
	for c := range m {
		cs = append(cs, c)
	}
	key := func(c *Conn) string {
		if c.conn != nil && c.conn.RemoteAddr() != nil {
			return c.conn.RemoteAddr().String()
		}
		return ""
	}
	for i := 1; i < len(cs); i++ {
		for j := i; j > 0 && key(cs[j]) < key(cs[j-1]); j-- {
			cs[j], cs[j-1] = cs[j-1], cs[j]
		}
	}
	return cs
}
