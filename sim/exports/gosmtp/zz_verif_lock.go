package smtp

import "runtime"

// VerifLock, when set, acquires go-smtp's connection and server mutexes for the
// simulation: a goroutine that waits for one of them must wait at a simulation
// point (a goroutine blocked in sync.Mutex.Lock is not durably blocked, and the
// holder may be parked by the scheduler - e.g. Server.Close logging a session
// out while that session's command is still running).
var VerifLock func(site string, try func() bool)

func verifLock(try func() bool) {
	if try() {
		return
	}
	if f := VerifLock; f != nil {
		f("gosmtp:lock", try)
		return
	}
	for !try() {
		runtime.Gosched()
	}
}
