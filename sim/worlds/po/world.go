// Package po is the connection-pool world: the real smtpconn/pool.P
// (yield-instrumented) with instrumented connection objects, worker tasks,
// the pool's own clean-up ticker on the fake clock and one shutdown.
package po

import (
	"context"
	"errors"
	"fmt"
	"sort"
	"strings"
	"time"

	"github.com/foxcpp/maddy/internal/smtpconn/pool"
	"github.com/foxcpp/maddy/internal/verifsim/harness"
	"github.com/foxcpp/maddy/internal/verifsim/simrt"
)

type conn struct {
	w        *world
	id       int
	key      string
	owner    string
	closes   int
	unusable bool
	lastUse  time.Time
	// bookkeeping for the oracle
	returnedLive bool // a Return of this conn completed before shutdown began
	handedOut    int
	closedBy     []string
	owned        bool // some worker got this connection before
}

func (c *conn) Usable() bool         { return !c.unusable && c.closes == 0 }
func (c *conn) LastUseAt() time.Time { return c.lastUse }
func (c *conn) Close() error {
	simrt.Point("conn:close", fmt.Sprintf("c%d", c.id))
	c.closes++
	who := "?"
	if t := c.w.s.CurTask(); t != nil {
		who = t.Name
	}
	c.closedBy = append(c.closedBy, who)
	c.w.s.Logf("c%d closed (%d) by %s", c.id, c.closes, shortTask(who))
	if c.closes > 1 {
		c.w.s.Violate("C19/closed-twice", "connection c%d (key %s) closed %d times: %v", c.id, c.key, c.closes, c.closedBy)
	}
	return nil
}

func shortTask(n string) string {
	if i := strings.Index(n, "/"); i > 0 {
		return n[:i] + "/…"
	}
	return n
}

type world struct {
	s        *simrt.Sim
	p        *pool.P
	conns    []*conn
	lifetime time.Duration
	closing  bool // Close has been invoked
	closed   bool // Close returned
	done     int
	total    int
	newFail  int
}

func (w *world) newConn(ctx context.Context, key string) (pool.Conn, error) {
	simrt.Point("conn:new", key)
	if w.newFail > 0 && w.s.T.Bool("newfail", 1, w.newFail) {
		w.s.Stat("fault_conn_new_error")
		return nil, errors.New("scripted dial failure")
	}
	c := &conn{w: w, id: len(w.conns) + 1, key: key, lastUse: time.Now()}
	w.conns = append(w.conns, c)
	w.s.Logf("c%d created for %s", c.id, key)
	return c, nil
}

// Run is the world function for C19.
func Run(s *simrt.Sim, a *harness.Args, r *harness.Result) {
	const st = "scen"
	w := &world{s: s}
	nKeys := 1 + s.T.Choose(st, 3)
	nWorkers := 1 + s.T.Choose(st, 8)
	rounds := 1 + s.T.Choose(st, 4)
	maxKeys := 1 + s.T.Choose(st, 3)
	perKey := 1 + s.T.Choose(st, 3)
	life := []int64{1, 5, 150}[s.T.Choose(st, 3)]
	stale := []int64{2, 60, 300}[s.T.Choose(st, 3)]
	w.lifetime = time.Duration(life) * time.Second
	w.newFail = []int{0, 0, 8}[s.T.Choose(st, 3)]
	closeAfter := s.T.Choose(st, 30)
	closeMode := s.T.Choose(st, 3) // 0: concurrent closer, 1: close at the end, 2: concurrent closer after a sleep

	s.PreemptBudget = []int{0, 1, 2, 3, -1}[s.T.Choose("knob", 5)]
	s.PreemptNum, s.PreemptDen = 1, []int{2, 4, 8}[s.T.Choose("knob", 3)]
	s.TimeNum, s.TimeDen = 1, 16
	s.TimeLadder = []time.Duration{time.Second, w.lifetime + time.Second, time.Minute, time.Duration(stale+1) * time.Second}
	s.TimeBudget = 6
	s.MaxSteps = 40000

	booted := false
	s.Spawn("boot", nil, func() {
		w.p = pool.New(pool.Config{New: w.newConn, MaxKeys: maxKeys, MaxConnsPerKey: perKey, MaxConnLifetimeSec: life, StaleKeyLifetimeSec: stale})
		booted = true
	})
	if s.Run(time.Second, func() bool { return booted }) != simrt.Progress || !booted {
		simrt.Harnessf("pool did not start")
	}

	sleeps := []time.Duration{0, 0, 500 * time.Millisecond, w.lifetime, w.lifetime + 2*time.Second, 61 * time.Second, time.Duration(stale+2) * time.Second}
	w.total = nWorkers
	for i := 0; i < nWorkers; i++ {
		name := fmt.Sprintf("w%d", i+1)
		// every worker's script is drawn up front so that the schedule does
		// not change what the workers want to do
		type op struct {
			key   string
			sleep time.Duration
			hold  time.Duration
			ret   int // 0 return, 1 close myself, 2 mark unusable and return
		}
		var script []op
		for j := 0; j < rounds; j++ {
			script = append(script, op{
				key:   fmt.Sprintf("k%d", 1+s.T.Choose(st, nKeys)),
				sleep: sleeps[s.T.Choose(st, len(sleeps))],
				hold:  []time.Duration{0, 0, time.Second}[s.T.Choose(st, 3)],
				ret:   []int{0, 0, 0, 1, 2}[s.T.Choose(st, 5)],
			})
		}
		s.Spawn(name, nil, func() {
			defer func() { w.done++ }()
			ctx := context.Background()
			for _, o := range script {
				if o.sleep > 0 {
					simrt.Sleep(o.sleep)
					simrt.Yield("worker:woke")
				}
				simrt.Point("worker:get", o.key)
				afterShutdown := w.closed
				before := len(w.conns)
				pc, err := w.p.Get(ctx, o.key)
				if err != nil || pc == nil {
					continue
				}
				c := pc.(*conn)
				// (not "created during this Get call": another worker may have
				// created, used and returned it while this one waited)
				_ = before
				fresh := !c.owned
				c.owned = true
				now := time.Now()
				s.Logf("%s got c%d for %s fresh=%v", name, c.id, o.key, fresh)
				if c.owner != "" {
					s.Violate("C19/double-owner", "connection c%d handed to %s while %s still uses it", c.id, name, c.owner)
				}
				if !fresh {
					s.Stat("reused_connection")
					c.handedOut++
					if c.closes > 0 {
						s.Violate("C19/handed-out-closed", "connection c%d handed to %s after it was closed by %v", c.id, name, c.closedBy)
					}
					if c.key != o.key {
						s.Violate("C19/wrong-key", "connection c%d of key %s handed out for key %s", c.id, c.key, o.key)
					}
					if now.Sub(c.lastUse) > w.lifetime+time.Second {
						s.Violate("C19/handed-out-expired", "connection c%d handed to %s %v after its last use; idle lifetime is %v", c.id, name, now.Sub(c.lastUse), w.lifetime)
					}
					if afterShutdown {
						s.Violate("C19/handed-out-after-shutdown", "connection c%d handed to %s after the pool was shut down", c.id, name)
					}
				}
				c.owner = name
				c.returnedLive = false
				if o.hold > 0 {
					simrt.Sleep(o.hold)
					simrt.Yield("worker:held")
				}
				simrt.Point("worker:use", fmt.Sprintf("c%d", c.id))
				c.lastUse = time.Now()
				c.owner = ""
				switch o.ret {
				case 1:
					c.Close()
				default:
					if o.ret == 2 {
						c.unusable = true
					}
					live := !w.closing
					s.Logf("%s returns c%d (live=%v)", name, c.id, live)
					gen := c.handedOut
					w.p.Return(o.key, c)
					// (another worker may have been handed the connection
					// before this Return call came back)
					if live && !w.closing && c.handedOut == gen {
						c.returnedLive = true
					}
				}
			}
		})
	}
	closerDone := false
	closer := func() {
		w.closing = true
		s.Logf("Close()")
		w.p.Close()
		w.closed = true
		closerDone = true
		s.Logf("Close returned")
	}
	switch closeMode {
	case 0:
		s.Spawn("closer", nil, func() {
			for i := 0; i < closeAfter; i++ {
				simrt.Point("closer", "wait")
			}
			closer()
		})
	case 2:
		s.Spawn("closer", nil, func() {
			simrt.Sleep([]time.Duration{time.Second, w.lifetime + time.Second, 62 * time.Second}[closeAfter%3])
			simrt.Yield("closer:woke")
			closer()
		})
	}
	allDone := func() bool { return w.done == w.total && (closeMode == 1 || closerDone) }
	res := s.Run(10*time.Minute, allDone)
	if !allDone() && len(s.Violations()) == 0 {
		s.Violate("C19/hang", "workers done %d/%d, shutdown returned=%v, result=%v; parked=%v", w.done, w.total, closerDone, res, s.ParkedKeys())
	}
	if closeMode == 1 && len(s.Violations()) == 0 {
		s.Spawn("closer", nil, closer)
		s.Run(10*time.Minute, func() bool { return closerDone })
		if !closerDone && len(s.Violations()) == 0 {
			s.Violate("C19/hang", "final shutdown did not return; parked=%v", s.ParkedKeys())
		}
	}
	// let detached `go conn.Close()` tasks finish
	s.Run(time.Second, nil)

	for _, p := range s.Panics() {
		if p.Func != "HARNESS" {
			s.Violate("C19/panic/"+p.Func, "task %s panicked: %s", p.Task, p.Value)
		}
	}
	if len(s.Violations()) == 0 {
		for _, c := range w.conns {
			if c.returnedLive && c.closes == 0 {
				s.Violate("C19/never-closed", "connection c%d (key %s) was returned to the live pool, never handed out again and never closed", c.id, c.key)
			}
		}
	}
	var keys []string
	for _, c := range w.conns {
		keys = append(keys, fmt.Sprintf("c%d:%s:h%d:x%d", c.id, c.key, c.handedOut, c.closes))
	}
	sort.Strings(keys)
	r.Shape = fmt.Sprintf("k%d w%d r%d mk%d pk%d l%d s%d cm%d", nKeys, nWorkers, rounds, maxKeys, perKey, life, stale, closeMode)
	r.Nontrivial = s.Preempts() > 0 || s.Stats()["reused_connection"] > 0
	r.Sample = map[string]interface{}{"scenario": r.Shape, "conns": keys, "steps": s.Steps(), "preemptions": s.Preempts()}
}
