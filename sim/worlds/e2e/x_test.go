package e2e

import (
	"testing"

	"github.com/foxcpp/maddy/internal/verifsim/harness"
)

func TestSim(t *testing.T) {
	// the scratch key directories of this process (real file system)
	defer CleanupKeys()
	harness.Main(t, map[string]harness.WorldFunc{"e2e": Run})
}
