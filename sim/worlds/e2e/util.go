package e2e

import "golang.org/x/net/idna"

func idnaASCII(d string) (string, error) { return idna.ToASCII(d) }
