package e2e

import "golang.org/x/net/idna"

func idnaASCII(d string) (string, error) { return idna.ToASCII(d) }

func cleanDomain(a string) string {
	for i := len(a) - 1; i >= 0; i-- {
		if a[i] == '@' {
			u, err := idna.ToUnicode(a[i+1:])
			if err != nil {
				return a
			}
			return a[:i+1] + u
		}
	}
	return a
}
