// Package e2e is the DKIM end-to-end world: real msgpipeline with the real
// modify.dkim signer -> real queue on the simulated disk -> real target.smtp
// (smtpconn + go-smtp client) -> scripted next hop over the simulated network.
// What the next hop received is verified against the published key.
package e2e

import (
	"bufio"
	"bytes"
	"context"
	"fmt"
	"io"
	"os"
	"path/filepath"
	"regexp"
	"strings"
	"time"

	"github.com/emersion/go-message/textproto"
	"github.com/emersion/go-msgauth/authres"
	msgdkim "github.com/emersion/go-msgauth/dkim"
	"github.com/emersion/go-smtp"
	"github.com/foxcpp/go-mockdns"
	"github.com/foxcpp/maddy/framework/buffer"
	"github.com/foxcpp/maddy/framework/config"
	"github.com/foxcpp/maddy/framework/log"
	"github.com/foxcpp/maddy/framework/module"
	checkdkim "github.com/foxcpp/maddy/internal/check/dkim"
	"github.com/foxcpp/maddy/internal/modify/dkim"
	"github.com/foxcpp/maddy/internal/msgpipeline"
	"github.com/foxcpp/maddy/internal/target/queue"
	smtpdown "github.com/foxcpp/maddy/internal/target/smtp"
	"github.com/foxcpp/maddy/internal/verifsim/actors"
	"github.com/foxcpp/maddy/internal/verifsim/harness"
	"github.com/foxcpp/maddy/internal/verifsim/simfs"
	"github.com/foxcpp/maddy/internal/verifsim/simnet"
	"github.com/foxcpp/maddy/internal/verifsim/simrt"
)

const mxAddr = "mx1.dest.example:2525"
const spool = "/spool"

var senders = []string{"sender@origin.example", "отправитель@почта.example", "s@xn--80a1acny.example"}

func genHeader(t *simrt.Tape) []byte {
	var raw bytes.Buffer
	raw.WriteString("From: <sender@origin.example>\r\n")
	names := []string{"Subject", "To", "Cc", "X-Custom", "Received", "Message-Id", "Date", "X-Empty", "Content-Type", "List-Id", "Reply-To", "Subject"}
	n := 1 + t.Choose("hdr", 7)
	for i := 0; i < n; i++ {
		raw.WriteString(names[t.Choose("hdr", len(names))])
		raw.WriteString(":")
		switch t.Choose("hdr", 7) {
		case 0:
			raw.WriteString(" simple value")
		case 1:
			raw.WriteString(" first part\r\n\tsecond part\r\n  third   part")
		case 2:
		case 3:
			raw.WriteString(" " + strings.Repeat("long-", 20+t.Choose("hdr", 150)))
		case 4:
			raw.WriteString(" 8bit \xe9\xe8 and utf8 тест ✓")
		case 5:
			raw.WriteString("no-leading-space  trailing-space  ")
		default:
			raw.WriteString(" =?utf-8?q?encoded=20word?= <a@b.example>;\r\n param=\"x  y\"")
		}
		raw.WriteString("\r\n")
	}
	raw.WriteString("\r\n")
	return raw.Bytes()
}

func genBody(t *simrt.Tape) []byte {
	switch t.Choose("body", 8) {
	case 0:
		return nil
	case 1:
		return []byte("hello\r\n")
	case 2:
		return []byte(".leading dot\r\n..two dots\r\n.\r\ntrailing space \r\n\ttab\t\r\n")
	case 3:
		return []byte("text\r\n\r\n\r\n\r\n")
	case 4:
		return bytes.Repeat([]byte("0123456789abcdef0123456789abcdef0123456789abcdef0123456789abcde\r\n"), 1+t.Choose("body", 40))
	case 5:
		return []byte(strings.Repeat("x", 900) + "\r\n" + "8bit \xe9 тест\r\n")
	case 6:
		return []byte("\r\n\r\nstarts with empty lines\r\n")
	default:
		return []byte("line one  \r\n line two\r\n")
	}
}

var keyDirs = map[string]string{}

// CleanupKeys removes the scratch key directories.
func CleanupKeys() {
	for k, d := range keyDirs {
		os.RemoveAll(d)
		delete(keyDirs, k)
	}
}

// signer builds the real modifier; keys are generated once per process in a
// scratch directory on the real file system (modify.dkim loads keys with os).
func newSigner(algo, hc, bc string, domains []string) (*dkim.Modifier, map[string]string, error) {
	dir, ok := keyDirs[algo]
	if !ok {
		d, err := os.MkdirTemp("", "verif-dkim-"+algo+"-")
		if err != nil {
			return nil, nil, err
		}
		dir = d
		keyDirs[algo] = d
	}
	mod, err := dkim.New("modify.dkim", "dk", nil, nil)
	if err != nil {
		return nil, nil, err
	}
	m := mod.(*dkim.Modifier)
	cfg := []config.Node{
		{Name: "domains", Args: domains},
		{Name: "selector", Args: []string{"sel"}},
		{Name: "key_path", Args: []string{filepath.Join(dir, "{domain}_{selector}.key")}},
		{Name: "newkey_algo", Args: []string{algo}},
		{Name: "header_canon", Args: []string{hc}},
		{Name: "body_canon", Args: []string{bc}},
	}
	if signSubdomains {
		cfg = append(cfg, config.Node{Name: "sign_subdomains", Args: []string{"yes"}})
	}
	if err := m.Init(config.NewMap(nil, config.Node{Children: cfg})); err != nil {
		return nil, nil, err
	}
	recs := map[string]string{}
	for _, d := range domains {
		b, err := os.ReadFile(filepath.Join(dir, d+"_sel.dns"))
		if err != nil {
			return nil, nil, err
		}
		recs[d] = string(b)
	}
	return m, recs, nil
}

// signSubdomains: the signer of the current run is configured with
// `sign_subdomains yes` (one domain; senders in its subdomains are signed
// with d= the configured domain and its key)
var signSubdomains bool

type emsg struct {
	id     string
	from   string
	utf8   bool
	hdrRaw []byte
	body   []byte
	acked  bool
}

// random temporary file names are scrubbed from the event log
var hexNameRe = regexp.MustCompile(`[0-9a-f]{32,}`)

// Run is the world function for C08.
func Run(s *simrt.Sim, a *harness.Args, r *harness.Result) {
	log.DefaultLogger.Out = log.NopOutput{}
	const st = "scen"
	algo := []string{"ed25519", "rsa2048"}[s.T.Choose(st, 2)]
	hc := []string{"relaxed", "simple"}[s.T.Choose(st, 2)]
	bc := []string{"relaxed", "simple"}[s.T.Choose(st, 2)]
	srvUTF8 := s.T.Choose(st, 2) == 1
	firstFails := s.T.Choose(st, 3) == 0
	crashAt := 0
	if s.T.Choose(st, 3) == 0 {
		crashAt = 1 + s.T.Choose(st, 12)
	}
	maxRead := []int{0, 0, 1, 7, 64}[s.T.Choose(st, 5)]
	// one transient read error on the spool disk (e.g. while the body is
	// being transmitted): the attempt fails, a retry delivers
	readFault := s.T.Choose(st, 4) == 0
	// the client's body arrives in a file-backed buffer (as for large
	// messages at the endpoint) and two messages are submitted concurrently
	fileBody := s.T.Choose(st, 2) == 1
	concurrent := s.T.Choose(st, 2) == 1
	// message identifiers as the SMTP endpoint makes them (module.GenerateMsgID)
	// instead of fixed ones: the spool names its files after them
	genIDs := s.T.Choose(st, 2) == 1
	// the signer has been up for six days (longer than the default
	// sig_expiry of five) when the messages arrive
	uptime := []time.Duration{0, 0, 0, 6 * 24 * time.Hour}[s.T.Choose(st, 4)]
	s.MaxSteps = 100000
	s.PreemptBudget = []int{0, 1, 2, -1}[s.T.Choose("knob", 4)]
	s.PreemptNum, s.PreemptDen = 1, 3

	domains := []string{"origin.example", "почта.example"}
	signSubdomains = s.T.Choose(st, 5) == 0
	subSenders := []string{"sender@origin.example", "sender@sub.origin.example", "sender@deep.sub.origin.example"}
	if signSubdomains {
		domains = domains[:1]
		if s.T.Choose(st, 3) == 0 {
			domains = []string{"почта.example"}
			subSenders = []string{"отправитель@почта.example", "отправитель@под.почта.example", "s@xn--d1atc.xn--80a1acny.example"}
		}
		s.Stat("dkim_sign_subdomains")
	}
	var signer *dkim.Modifier
	var recs map[string]string
	var berr error
	// key generation touches the real file system and real CPU only
	if algo == "ed25519" {
		// cheap to generate: every run starts from an empty key directory, so
		// that a run never depends on what earlier runs of this process left
		if d, ok := keyDirs[algo]; ok {
			os.RemoveAll(d)
			delete(keyDirs, algo)
		}
	}
	if algo == "ed25519" && s.T.Choose(st, 8) == 0 {
		// history: the administrator rotates the keys (removes the private
		// key files; the next start generates new ones and must publish the
		// matching records)
		// (self-contained: an earlier start in this very run made the keys)
		if _, _, err := newSigner(algo, hc, bc, domains); err != nil {
			simrt.Harnessf("dkim signer init: %v", err)
		}
		for _, d := range domains {
			os.Remove(filepath.Join(keyDirs[algo], d+"_sel.key"))
		}
		s.Stat("dkim_key_rotation")
	}
	signer, recs, berr = newSigner(algo, hc, bc, domains)
	if berr != nil {
		simrt.Harnessf("dkim signer init: %v", berr)
	}
	module.RegisterInstance(signer, nil)
	module.Initialized["dk"] = true

	fs := simfs.New()
	simfs.Use(fs)
	simfs.MkdirAll(spool, 0o755)
	simfs.MkdirAll("/buf", 0o755)
	// temporary buffer files have random names
	simfs.CanonName = func(b string) string {
		stem, ext := b, ""
		if i := strings.Index(b, "."); i >= 0 {
			stem, ext = b[:i], b[i:]
		}
		if len(stem) <= 2 || stem == "spool" || stem == "buf" {
			return b
		}
		return s.ID("file", stem) + ext
	}
	defer func() { simfs.CanonName = nil }()
	if readFault {
		fs.FaultOps = map[string]bool{"read": true}
		fs.FaultBudget = 1
		fs.FaultNum, fs.FaultDen = 1, 4
	}
	nw := simnet.New()
	simnet.SetCurrent(nw, "192.0.2.1:40000")
	defer simnet.SetCurrent(nil, "")
	plan := &actors.MXPlan{EnhCodes: true, SMTPUTF8: srvUTF8}
	if firstFails {
		plan.Final = []actors.Outcome{actors.Temp, actors.OK}
	}
	mx := &actors.ScriptedMX{Host: "mx1.dest.example", Plan: plan, PKI: actors.SharedPKI()}
	l := nw.Listen(mxAddr)
	nw.ServerMaxRead = maxRead
	s.Spawn("mxserve", nil, func() { mx.Serve(l) })

	n := 1 + s.T.Choose(st, 2)
	if firstFails && n > 1 && s.T.Choose(st, 2) == 1 {
		// the first transmission of every message fails: the retries come
		// due together and the spool entries are read back side by side
		plan.Final = []actors.Outcome{actors.Temp, actors.Temp, actors.OK}
	}
	var msgs []*emsg
	for i := 0; i < n; i++ {
		m := &emsg{id: fmt.Sprintf("e%d", i+1)}
		m.utf8 = s.T.Choose(st, 2) == 1
		m.from = senders[0]
		if m.utf8 {
			m.from = senders[s.T.Choose(st, len(senders))]
		} else if s.T.Choose(st, 3) == 0 {
			m.from = senders[2]
		}
		if signSubdomains {
			m.from = subSenders[s.T.Choose(st, len(subSenders))]
			if domains[0] != "origin.example" {
				// (U-label local parts and domains need SMTPUTF8; the A-label
				// spelling with an ASCII local part does not)
				m.utf8 = m.utf8 || m.from != subSenders[2]
			}
		}
		m.hdrRaw = genHeader(s.T)
		m.hdrRaw = append([]byte("X-Sim-Msg: "+m.id+"\r\n"), m.hdrRaw...)
		m.body = genBody(s.T)
		msgs = append(msgs, m)
	}

	var q *queue.Queue
	var pipe *msgpipeline.MsgPipeline
	incN := 0
	var inc *simrt.Inc
	booted := false
	boot := func() {
		incN++
		inc = &simrt.Inc{ID: incN}
		booted = false
		s.Spawn(fmt.Sprintf("boot%d", incN), inc, func() {
			mod, err := smtpdown.NewDownstream("target.smtp", "down", nil, []string{"tcp://" + mxAddr})
			if err != nil {
				simrt.Harnessf("downstream: %v", err)
			}
			d := mod.(*smtpdown.Downstream)
			if err := d.Init(config.NewMap(nil, config.Node{Children: []config.Node{{Name: "hostname", Args: []string{"mx.sim.example"}}, {Name: "starttls", Args: []string{"no"}}}})); err != nil {
				simrt.Harnessf("downstream init: %v", err)
			}
			qq, err := queue.VerifNewQueue(queue.VerifConfig{Location: spool, Target: d, Hostname: "mx.sim.example", AutogenMsgDomain: "sim.example",
				InitialRetry: time.Minute, RetryScale: 1, MaxTries: 4, PostInitDelay: time.Second, Parallelism: 2, Log: log.Logger{Out: log.NopOutput{}}})
			if err != nil {
				simrt.Harnessf("queue: %v", err)
			}
			q = qq
			module.RegisterInstance(q, nil)
			module.Initialized["queue"] = true
			p, err := msgpipeline.New(nil, []config.Node{
				{Name: "modify", Children: []config.Node{{Name: "&dk"}}},
				{Name: "deliver_to", Args: []string{"&queue"}},
			})
			if err != nil {
				simrt.Harnessf("pipeline: %v", err)
			}
			p.Hostname = "mx.sim.example"
			p.Log = log.Logger{Out: log.NopOutput{}}
			pipe = p
			booted = true
		})
	}
	crashed := false
	fs.OnCrash = func(op string) {
		crashed = true
		s.KillInc(inc)
	}
	fs.CrashAt = crashAt
	boot()
	s.Run(time.Minute, func() bool { return booted })
	if !booted {
		simrt.Harnessf("boot failed")
	}
	submit := func(m *emsg) {
		ctx := context.Background()

		hdr, err := textproto.ReadHeader(bufio.NewReader(bytes.NewReader(m.hdrRaw)))
		if err != nil {
			simrt.Harnessf("generated header does not parse: %v", err)
		}
		meta := &module.MsgMetadata{ID: m.id, OriginalFrom: m.from, SMTPOpts: smtp.MailOptions{UTF8: m.utf8}}
		if genIDs {
			id, err := module.GenerateMsgID()
			if err != nil {
				simrt.Harnessf("GenerateMsgID: %v", err)
			}
			meta.ID = id
		}
		// like the SMTP endpoint, hand the pipeline the sender with a
		// case-folded U-label domain whatever the client sent
		d, err := pipe.Start(ctx, meta, cleanDomain(m.from))
		if err != nil {
			return
		}
		if err := d.AddRcpt(ctx, "rcpt@dest.example", smtp.RcptOptions{}); err != nil {
			d.Abort(ctx)
			return
		}
		var body buffer.Buffer = buffer.MemoryBuffer{Slice: m.body}
		if fileBody {
			fb, err := buffer.BufferInFile(bytes.NewReader(m.body), "/buf")
			if err != nil {
				d.Abort(ctx)
				return
			}
			defer fb.Remove()
			body = fb
		}
		if err := d.Body(ctx, hdr, body); err != nil {
			s.Logf("producer: %s Body failed: %s", m.id, hexNameRe.ReplaceAllString(err.Error(), "*"))
			d.Abort(ctx)
			return
		}
		if err := d.Commit(ctx); err == nil {
			m.acked = true
			s.Logf("producer: %s accepted", m.id)
		}
	}
	if uptime > 0 {
		// the server has been running for a while before the messages arrive
		// (verification below happens at the end of the run, well within the
		// lifetime of a signature made now)
		up := false
		s.Spawn("uptime", inc, func() {
			simrt.Sleep(uptime)
			simrt.Yield("uptime:over")
			up = true
		})
		s.Run(uptime+time.Hour, func() bool { return up })
	}
	if concurrent {
		for _, m := range msgs {
			m := m
			s.Spawn("producer-"+m.id, inc, func() { submit(m) })
		}
	} else {
		s.Spawn("producer", inc, func() {
			for _, m := range msgs {
				submit(m)
			}
		})
	}
	s.Run(2*time.Hour, func() bool { return crashed })
	if crashed {
		crashed = false
		s.Stat("crash_restart")
		boot()
		s.Run(2*time.Hour, nil)
	}
	closed := false
	if q != nil {
		qq := q
		s.Spawn("close", inc, func() { qq.Close(); closed = true })
		s.Run(time.Hour, func() bool { return closed })
	}
	for _, p := range s.Panics() {
		if p.Func != "HARNESS" {
			s.Violate("C08/panic/"+p.Func, "task %s panicked: %s", p.Task, p.Value)
		}
	}

	// ---- verification at the next hop
	lookup := func(domain string) ([]string, error) {
		for d, rec := range recs {
			ad, _ := idnaASCII(d)
			if domain == "sel._domainkey."+d || domain == "sel._domainkey."+ad {
				return []string{rec}, nil
			}
		}
		return nil, fmt.Errorf("no such record %s", domain)
	}
	ctxSig := "plain"
	if firstFails {
		ctxSig = "retry"
	}
	if crashAt > 0 && s.Stats()["crash_restart"] > 0 {
		ctxSig = "restart"
	}
	if maxRead > 0 {
		ctxSig += "-fragmented"
	}
	if s.Stats()["fault_fs_read"] > 0 {
		ctxSig += "-readerror"
	}
	if concurrent && n > 1 {
		ctxSig += "-concurrent"
	}
	// maddy's own verifier (check.dkim) as a second opinion at the next hop
	var dkc *checkdkim.Check
	if cm, err := checkdkim.New("check.dkim", "vdk", nil, nil); err == nil {
		dkc = cm.(*checkdkim.Check)
		if err := dkc.Init(config.NewMap(nil, config.Node{})); err != nil {
			simrt.Harnessf("check.dkim init: %v", err)
		}
		zones := map[string]mockdns.Zone{}
		for d, rec := range recs {
			ad, _ := idnaASCII(d)
			zones["sel._domainkey."+ad+"."] = mockdns.Zone{TXT: []string{rec}}
		}
		dkc.VerifSetResolver(&mockdns.Resolver{Zones: zones})
	} else {
		simrt.Harnessf("check.dkim: %v", err)
	}
	maddyVerdict := func(data []byte) (pass bool, all []string) {
		br := bufio.NewReader(bytes.NewReader(data))
		h, err := textproto.ReadHeader(br)
		if err != nil {
			return false, []string{"unparsable: " + err.Error()}
		}
		body, _ := io.ReadAll(br)
		st, err := dkc.CheckStateForMsg(context.Background(), &module.MsgMetadata{ID: "verify"})
		if err != nil {
			return false, []string{err.Error()}
		}
		res := st.CheckBody(context.Background(), h, buffer.MemoryBuffer{Slice: body})
		for _, ar := range res.AuthResult {
			if dr, ok := ar.(*authres.DKIMResult); ok {
				all = append(all, fmt.Sprintf("%s(%s)", dr.Value, dr.Domain))
				if dr.Value == authres.ResultPass && dr.Domain != "foreign.example" {
					pass = true
				}
			}
		}
		return pass, all
	}
	verified := 0
	for _, tx := range mx.Received() {
		if tx.FinalCode/100 != 2 {
			continue
		}
		vs, err := msgdkim.VerifyWithOptions(bytes.NewReader(tx.Data), &msgdkim.VerifyOptions{LookupTXT: lookup})
		if err != nil {
			s.Violate("C08/signature-broken/"+hc+"-"+bc+"/"+algo+"/"+ctxSig, "message #%d at the next hop cannot be verified: %v", tx.N, err)
			continue
		}
		if len(vs) == 0 {
			s.Violate("C08/signature-missing/"+ctxSig, "message #%d arrived without a DKIM signature (sender %s)", tx.N, tx.From)
			continue
		}
		for _, v := range vs {
			if v.Err != nil {
				s.Violate("C08/signature-broken/"+hc+"-"+bc+"/"+algo+"/"+ctxSig, "message #%d (d=%s) fails verification at the next hop: %v", tx.N, v.Domain, v.Err)
			}
		}
		if len(s.Violations()) > 0 {
			break
		}
		verified++
		// maddy's verifier agrees, also when an unrelated broken signature
		// sits on top of maddy's
		if ok, all := maddyVerdict(tx.Data); !ok {
			s.Violate("C08/maddy-verifier-disagrees/plain", "go-msgauth verifies message #%d, maddy's check.dkim reports %v", tx.N, all)
		}
		foreign := "DKIM-Signature: v=1; a=rsa-sha256; c=relaxed/relaxed; d=foreign.example; s=nokey;\r\n h=From; bh=47DEQpj8HBSa+/TImW+5JCeuQeRkm5NMpJWZG3hSuFU=; b=AAAA\r\n"
		if ok, all := maddyVerdict(append([]byte(foreign), tx.Data...)); !ok {
			s.Violate("C08/maddy-verifier-disagrees/foreign-signature-on-top", "message #%d with an unverifiable foreign signature prepended: maddy's check.dkim reports %v for the signatures, none passing for the signing domain", tx.N, all)
		}
		// tampering must be detected
		for _, tm := range []struct{ name, from, to string }{
			{"alter", "From: <sender@origin.example>", "From: <attacker@origin.example>"},
			{"add", "X-Sim-Msg:", "Subject: injected\r\nX-Sim-Msg:"},
		} {
			td := bytes.Replace(tx.Data, []byte(tm.from), []byte(tm.to), 1)
			if bytes.Equal(td, tx.Data) {
				continue
			}
			vs2, err := msgdkim.VerifyWithOptions(bytes.NewReader(td), &msgdkim.VerifyOptions{LookupTXT: lookup})
			ok := err == nil && len(vs2) > 0
			for _, v := range vs2 {
				if v.Err != nil {
					ok = false
				}
			}
			if ok {
				s.Violate("C08/tamper-accepted/"+tm.name, "message #%d still verifies after a signed header field was %sed", tx.N, tm.name)
			}
		}
	}
	s.StatN("verified_at_next_hop", verified)
	r.Shape = fmt.Sprintf("%s %s/%s srvutf8=%v retry=%v crash=%d frag=%d rf=%v fb=%v conc=%v gid=%v up=%v msgs=%d", algo, hc, bc, srvUTF8, firstFails, crashAt, maxRead, readFault, fileBody, concurrent, genIDs, uptime, n)
	for _, m := range msgs {
		r.Shape += fmt.Sprintf("[%s u=%v h=%d b=%d]", m.from, m.utf8, len(m.hdrRaw), len(m.body))
	}
	r.Nontrivial = verified > 0
	r.Sample = map[string]interface{}{"scenario": r.Shape, "verified": verified, "fault_context": ctxSig}
}
