// Package au is the authentication world: real submission endpoint (go-smtp
// server, SASL PLAIN/LOGIN via auth.SASLAuth and sasllogin), real pass_table
// over a stub mutable table, optional real auth_map tables; an administrator
// changes accounts while scripted clients authenticate.
package au

import (
	"context"
	"encoding/base64"
	"fmt"
	"regexp"
	"sort"
	"strings"
	"time"

	"github.com/anishathalye/porcupine"
	"github.com/foxcpp/go-mockdns"
	"github.com/foxcpp/maddy/framework/config"
	"github.com/foxcpp/maddy/framework/log"
	"github.com/foxcpp/maddy/framework/module"
	"github.com/foxcpp/maddy/internal/auth/pass_table"
	smtpendp "github.com/foxcpp/maddy/internal/endpoint/smtp"
	_ "github.com/foxcpp/maddy/internal/table"
	"github.com/foxcpp/maddy/internal/verifsim/actors"
	"github.com/foxcpp/maddy/internal/verifsim/harness"
	"github.com/foxcpp/maddy/internal/verifsim/simnet"
	"github.com/foxcpp/maddy/internal/verifsim/simrt"
	"golang.org/x/text/secure/precis"
)

const listenAddr = "192.0.2.20:587"

type op struct {
	kind   string // create, setpass, delete, auth, mailnoauth
	user   string
	pass   string
	algo   string
	authz  string // PLAIN authorization identity ("" = none)
	mech   string // both, plain, login
	result string
}

type world struct {
	s     *simrt.Sim
	net   *simnet.Net
	endp  *smtpendp.Endpoint
	pt    *pass_table.Auth
	tbl   *actors.StubTable
	tgt   *actors.ScriptedTarget
	mapK  int               // 0 none, 1 identity, 2 static chain, 3 regexp
	ref   map[string]string // reference accounts: normalized key -> password
	nconn int
}

var users = []string{"alice", "Alice", "ALICE", "ａｌｉｃｅ", "bob", "carol", "réne", "réne", "alice-alias", "dave"}
var passwords = []string{"pw1", "pw2", "", "пароль", "пароль́", strings.Repeat("x", 71), strings.Repeat("y", 80), "pw1 "}

func key(u string) (string, bool) {
	k, err := precis.UsernameCaseMapped.CompareKey(u)
	return k, err == nil
}

var aliasRe = regexp.MustCompile(`^(.+)-alias$`)

// mapped is the reference for the configured auth_map (the configuration is
// the specification): the account name a login name stands for.
func (w *world) mapped(n string) (string, bool) {
	switch w.mapK {
	case 0, 1:
		return n, true
	case 2:
		m := map[string]string{"alice": "bob", "bob": "carol", "dave": "dave"}
		v, ok := m[n]
		return v, ok
	default:
		if mm := aliasRe.FindStringSubmatch(n); mm != nil {
			return mm[1], true
		}
		return "", false
	}
}

// expect: should (user, pass) authenticate?
func (w *world) expect(user, pass string) bool {
	n, ok := key(user)
	if !ok {
		return false
	}
	m, ok := w.mapped(n)
	if !ok {
		return false
	}
	k, ok := key(m)
	if !ok {
		return false
	}
	cur, exists := w.ref[k]
	return exists && cur == pass
}

func node(name string, args ...string) config.Node { return config.Node{Name: name, Args: args} }

func (w *world) build() error {
	s := w.s
	w.mapK = s.T.Choose("scen", 4)
	w.tbl = &actors.StubTable{Label: "credtbl", M: map[string]string{}}
	module.RegisterInstance(w.tbl, nil)
	delete(module.Initialized, "credtbl")
	pm, _ := pass_table.New("auth.pass_table", "creds", nil, []string{"&credtbl"})
	w.pt = pm.(*pass_table.Auth)
	module.RegisterInstance(w.pt, config.NewMap(nil, config.Node{}))
	delete(module.Initialized, "creds")
	w.tgt = &actors.ScriptedTarget{Label: "sink", Prop: "C14"}
	module.RegisterInstance(w.tgt, nil)
	delete(module.Initialized, "sink")
	cfg := []config.Node{
		node("hostname", "mx.sim.example"), node("tls", "off"),
		node("auth", "&creds"), node("sasl_login", "yes"),
		node("defer_sender_reject", []string{"yes", "no"}[s.T.Choose("scen", 2)]),
		node("deliver_to", "&sink"),
	}
	switch w.mapK {
	case 1:
		cfg = append(cfg, node("auth_map", "identity"))
	case 2:
		cfg = append(cfg, config.Node{Name: "auth_map", Args: []string{"static"}, Children: []config.Node{
			node("entry", "alice", "bob"), node("entry", "bob", "carol"), node("entry", "dave", "dave")}})
	case 3:
		cfg = append(cfg, node("auth_map", "regexp", "^(.+)-alias$", "$1"))
	}
	mod, err := smtpendp.New("submission", nil)
	if err != nil {
		return err
	}
	w.endp = mod.(*smtpendp.Endpoint)
	w.endp.Log = log.Logger{Out: log.NopOutput{}, Name: "submission"}
	w.endp.VerifSetResolver(&mockdns.Resolver{Zones: map[string]mockdns.Zone{}})
	return w.endp.Init(config.NewMap(nil, config.Node{Children: cfg}))
}

func b64(s string) string { return base64.StdEncoding.EncodeToString([]byte(s)) }

type authResult struct {
	ok       bool
	temp     bool
	identity string // AuthUser seen by the target for a message sent after AUTH
	mailOK   bool
	reply    string
}

// attempt opens a connection, authenticates with the mechanism and, if that
// worked, sends one message so that the recorded identity becomes visible.
func (w *world) attempt(name, mech, user, pass, authz string) authResult {
	var r authResult
	w.nconn++
	conn, err := w.net.Dial(context.Background(), fmt.Sprintf("198.51.100.9:%d", 30000+w.nconn), listenAddr)
	if err != nil {
		simrt.Harnessf("dial: %v", err)
	}
	defer conn.Close()
	cl := actors.NewSMTPClient(name, conn)
	cl.ReadReply()
	cl.Cmd("EHLO client.example")
	var ar actors.Reply
	if mech == "plain" {
		ar = cl.Cmd("AUTH PLAIN " + b64(authz+"\x00"+user+"\x00"+pass))
	} else {
		ar = cl.Cmd("AUTH LOGIN")
		if ar.Code == 334 {
			ar = cl.Cmd(b64(user))
		}
		if ar.Code == 334 {
			v := b64(pass)
			if v == "" {
				v = "="
			}
			ar = cl.Cmd(v)
		}
	}
	r.reply = ar.String()
	r.ok = ar.Code == 235
	r.temp = ar.Code/100 == 4
	before := len(w.tgt.Records())
	mr := cl.Cmd("MAIL FROM:<sender@origin.example>")
	r.mailOK = mr.OK()
	if mr.OK() {
		if cl.Cmd("RCPT TO:<rcpt@dest.example>").OK() {
			if d := cl.Cmd("DATA"); d.Code == 354 {
				cl.Send(actors.DotStuff([]byte("From: <sender@origin.example>\r\nSubject: x\r\n\r\nhi\r\n")))
				cl.ReadReply()
			}
		}
		if recs := w.tgt.Records(); len(recs) > before {
			r.identity = recs[len(recs)-1].AuthUser
		}
	}
	cl.Cmd("QUIT")
	return r
}

// porcupine model: one register per account.
type pin struct {
	kind string // set, del, auth
	acct string
	pass string
}

var regModel = porcupine.Model{
	Partition: func(history []porcupine.Operation) [][]porcupine.Operation {
		m := map[string][]porcupine.Operation{}
		var ks []string
		for _, o := range history {
			a := o.Input.(pin).acct
			if _, ok := m[a]; !ok {
				ks = append(ks, a)
			}
			m[a] = append(m[a], o)
		}
		sort.Strings(ks)
		var out [][]porcupine.Operation
		for _, k := range ks {
			out = append(out, m[k])
		}
		return out
	},
	Init: func() interface{} { return "\x00none" },
	Step: func(state, input, output interface{}) (bool, interface{}) {
		st := state.(string)
		in := input.(pin)
		switch in.kind {
		case "set":
			return true, "p:" + in.pass
		case "del":
			return true, "\x00none"
		default:
			want := st == "p:"+in.pass
			return output.(bool) == want, st
		}
	},
	Equal: func(a, b interface{}) bool { return a == b },
	DescribeOperation: func(in, out interface{}) string {
		i := in.(pin)
		return fmt.Sprintf("%s(%s,%q)->%v", i.kind, i.acct, i.pass, out)
	},
}

// Run is the world function for C14.
func Run(s *simrt.Sim, a *harness.Args, r *harness.Result) {
	log.DefaultLogger.Out = log.NopOutput{}
	w := &world{s: s, net: simnet.New(), ref: map[string]string{}}
	s.MaxSteps = 200000
	s.PreemptBudget = []int{0, 1, 2, -1}[s.T.Choose("knob", 4)]
	s.PreemptNum, s.PreemptDen = 1, 4
	const st = "scen"
	var berr error
	built := false
	s.Spawn("boot", nil, func() {
		berr = w.build()
		built = true
	})
	s.Run(time.Second, func() bool { return built })
	if !built || berr != nil {
		simrt.Harnessf("submission endpoint init failed: %v", berr)
	}
	l := w.net.Listen(listenAddr)
	s.Spawn("serve", nil, func() { w.endp.VerifServe(l) })

	// ---- sequential history
	n := 3 + s.T.Choose(st, 10)
	var ops []*op
	for i := 0; i < n; i++ {
		o := &op{user: users[s.T.Choose(st, len(users))], pass: passwords[s.T.Choose(st, len(passwords))]}
		switch k := s.T.Choose(st, 10); {
		case k < 2:
			o.kind = "create"
			o.algo = []string{"bcrypt", "argon2"}[s.T.Choose(st, 2)]
		case k < 3:
			o.kind = "setpass"
		case k < 4:
			o.kind = "delete"
		case k < 5:
			o.kind = "mailnoauth"
		default:
			o.kind = "auth"
			o.mech = "both"
			if s.T.Choose(st, 4) == 0 {
				o.authz = []string{o.user, "someone-else", strings.ToUpper(o.user)}[s.T.Choose(st, 3)]
				o.mech = "plain"
			}
			// mostly try a password that is or was in use for that account
			if s.T.Choose(st, 3) != 0 {
				if k, ok := key(o.user); ok {
					if m, ok := w.mapped(k); ok {
						if kk, ok := key(m); ok {
							if cur, ok := w.ref[kk]; ok {
								o.pass = cur
							}
						}
					}
				}
			}
		}
		ops = append(ops, o)
		// keep the generator's notion of the accounts in step (for choosing
		// plausible passwords only; the oracle recomputes it while running)
		if o.kind == "create" || o.kind == "setpass" {
			if k, ok := key(o.user); ok && len(o.pass) <= 72 {
				if _, exists := w.ref[k]; !(o.kind == "create" && exists) {
					w.ref[k] = o.pass
				}
			}
		} else if o.kind == "delete" {
			if k, ok := key(o.user); ok {
				delete(w.ref, k)
			}
		}
	}
	w.ref = map[string]string{}
	failLookup := s.T.Choose(st, 6) == 0
	done := false
	s.Spawn("driver", nil, func() {
		defer func() { done = true }()
		for i, o := range ops {
			switch o.kind {
			case "create":
				opts := pass_table.HashOpts{BcryptCost: 4, Argon2Time: 1, Argon2Memory: 64, Argon2Threads: 1}
				if failLookup && i%3 == 1 {
					// the table cannot answer the "does it exist?" lookup
					w.tbl.FailNext = 1
				}
				err := w.pt.CreateUserHash(o.user, o.pass, o.algo, opts)
				w.tbl.FailNext = 0
				k, ok := key(o.user)
				if err == nil {
					if !ok {
						s.Violate("C14/created-unnormalizable", "account created for a name that has no normal form: %q", o.user)
					} else if _, exists := w.ref[k]; exists {
						s.Violate("C14/create-overwrote-account", "create %q succeeded although the account %q exists", o.user, k)
					} else {
						w.ref[k] = o.pass
					}
				}
				o.result = fmt.Sprint(err)
				s.Logf("op%d create %q algo=%s -> %v", i, o.user, o.algo, err != nil)
			case "setpass":
				if failLookup && i%3 == 2 {
					// the table is out of order while the operation runs: an
					// operation that reports success must have taken effect,
					// one that reports failure has changed nothing (the stub
					// changes nothing when it fails)
					w.tbl.FailWrites, w.tbl.FailNext = 2, 2
				}
				err := w.pt.SetUserPassword(o.user, o.pass)
				w.tbl.FailWrites, w.tbl.FailNext = 0, 0
				if err == nil {
					if k, ok := key(o.user); ok {
						w.ref[k] = o.pass
					}
				}
				o.result = fmt.Sprint(err)
				s.Logf("op%d setpass %q -> err=%v", i, o.user, err != nil)
			case "delete":
				if failLookup && i%3 != 1 {
					w.tbl.FailWrites, w.tbl.FailNext = 2, 2
				}
				err := w.pt.DeleteUser(o.user)
				w.tbl.FailWrites, w.tbl.FailNext = 0, 0
				if err == nil {
					if k, ok := key(o.user); ok {
						old, existed := w.ref[k]
						delete(w.ref, k)
						if existed {
							// a deletion that reported success: the password
							// that was valid a moment ago no longer is
							// (through a login name that the user-name map, if
							// any, leads to the deleted account)
							for _, n := range []string{o.user, "alice", "bob", "carol", "dave"} {
								nk, ok1 := key(n)
								m, ok2 := w.mapped(nk)
								mk, ok3 := key(m)
								if !ok1 || !ok2 || !ok3 || mk != k {
									continue
								}
								if res := w.attempt(fmt.Sprintf("d%d", i), "plain", n, old, ""); res.ok && !w.expect(n, old) {
									s.Violate("C14/accepted-deleted-account", "delete %q reported success, yet AUTH PLAIN %q with its last password still succeeds", o.user, n)
								}
								break
							}
						}
					}
				}
				s.Logf("op%d delete %q -> err=%v", i, o.user, err != nil)
			case "mailnoauth":
				res := w.attempt(fmt.Sprintf("c%d", i), "plain", o.user, o.pass+"-wrong-\x01", "")
				if res.ok {
					s.Violate("C14/accepted-wrong-password", "AUTH PLAIN %q with a password never set succeeded", o.user)
				}
				if res.mailOK {
					s.Violate("C14/mail-before-auth", "submission endpoint accepted MAIL FROM without a successful authentication (AUTH reply: %s)", res.reply)
				}
			case "auth":
				want := w.expect(o.user, o.pass)
				if failLookup && i%3 == 0 {
					w.tbl.FailNext = 1
					want = false
				}
				var rp, rl authResult
				if o.mech == "plain" || o.mech == "both" {
					rp = w.attempt(fmt.Sprintf("c%dp", i), "plain", o.user, o.pass, o.authz)
					wantP := want
					if o.authz != "" && o.authz != o.user {
						wantP = false
						if rp.ok {
							s.Violate("C14/authzid-accepted", "AUTH PLAIN user %q with authorization identity %q succeeded", o.user, o.authz)
						}
					}
					if rp.ok && !wantP {
						s.Violate("C14/accepted-wrong-password/plain", "AUTH PLAIN %q/%q succeeded; account state: %s", o.user, o.pass, w.describe(o.user))
					}
					if !rp.ok && wantP && w.tbl.FailNext == 0 && !(failLookup && i%3 == 0) {
						s.Violate("C14/rejected-current-password/plain", "AUTH PLAIN %q with the current password failed (%s); account state: %s", o.user, rp.reply, w.describe(o.user))
					}
					if rp.mailOK != rp.ok {
						s.Violate("C14/mail-before-auth", "AUTH PLAIN ok=%v but MAIL accepted=%v", rp.ok, rp.mailOK)
					}
				}
				w.tbl.FailNext = 0
				if o.mech == "both" {
					if failLookup && i%3 == 0 {
						w.tbl.FailNext = 1
					}
					rl = w.attempt(fmt.Sprintf("c%dl", i), "login", o.user, o.pass, "")
					w.tbl.FailNext = 0
					if rl.ok && !want {
						s.Violate("C14/accepted-wrong-password/login", "AUTH LOGIN %q/%q succeeded; account state: %s", o.user, o.pass, w.describe(o.user))
					}
					if rl.mailOK != rl.ok {
						s.Violate("C14/mail-before-auth", "AUTH LOGIN ok=%v but MAIL accepted=%v", rl.ok, rl.mailOK)
					}
					if !(failLookup && i%3 == 0) {
						if rp.ok != rl.ok {
							s.Violate("C14/mechanisms-differ/decision", "same credentials %q/%q: PLAIN ok=%v (%s), LOGIN ok=%v (%s)", o.user, o.pass, rp.ok, rp.reply, rl.ok, rl.reply)
						} else if rp.ok && rp.identity != rl.identity {
							s.Violate("C14/mechanisms-differ/identity", "same credentials %q: PLAIN recorded identity %q, LOGIN recorded %q", o.user, rp.identity, rl.identity)
						}
					}
				}
				if failLookup && i%3 == 0 && (rp.ok || rl.ok) {
					s.Violate("C14/auth-succeeded-on-lookup-error", "authentication succeeded although the credentials lookup failed")
				}
			}
			if len(s.Violations()) > 0 {
				return
			}
		}
	})
	res := s.Run(time.Hour, func() bool { return done })
	if !done && len(s.Violations()) == 0 {
		simrt.Harnessf("driver did not finish (%v); parked=%v", res, s.ParkedKeys())
	}

	// ---- concurrent phase: one administrator, 1-2 clients, linearizability
	inconclusive := false
	if len(s.Violations()) == 0 && s.T.Choose(st, 2) == 1 && w.mapK <= 1 {
		accts := []string{"bob", "carol"}
		if s.T.Choose(st, 2) == 0 {
			// the accounts are made afresh with cheap (low-cost bcrypt or
			// legacy) hashes, as an administrator's import tool would: whatever
			// an implementation does with such entries when they are used, it
			// must not disturb what the administrator does meanwhile
			remade := false
			s.Spawn("remake", nil, func() {
				defer func() { remade = true }()
				for i, ac := range accts {
					k, _ := key(ac)
					w.pt.DeleteUser(ac)
					delete(w.ref, k)
					algo := []string{"bcrypt", "bcrypt", "sha256"}[(i+s.Steps())%3]
					if err := w.pt.CreateUserHash(ac, "pw1", algo, pass_table.HashOpts{BcryptCost: 4}); err == nil {
						w.ref[k] = "pw1"
					}
				}
			})
			s.Run(time.Hour, func() bool { return remade })
			s.Stat("concurrent_fresh_weak_accounts")
		}
		var hist []porcupine.Operation
		// initial state goes into the history as completed operations
		stamp := func() int64 { return int64(s.Steps()) }
		for _, ac := range accts {
			k, _ := key(ac)
			t0 := stamp()
			if cur, ok := w.ref[k]; ok {
				hist = append(hist, porcupine.Operation{ClientId: 0, Input: pin{"set", k, cur}, Call: t0, Output: true, Return: t0})
			}
		}
		nAdmin := 1 + s.T.Choose(st, 2)
		nCl := 1 + s.T.Choose(st, 2)
		type aop struct {
			acct, pass string
			del        bool
		}
		var aops []aop
		for i := 0; i < nAdmin; i++ {
			aops = append(aops, aop{acct: accts[s.T.Choose(st, 2)], pass: []string{"c1", "c2", "c3"}[s.T.Choose(st, 3)], del: s.T.Choose(st, 4) == 0})
		}
		fin := 0
		var hmu = make(chan struct{}, 1)
		hmu <- struct{}{}
		rec := func(o porcupine.Operation) { <-hmu; hist = append(hist, o); hmu <- struct{}{} }
		// the administrator is the only writer: whatever the clients do
		// meanwhile, the accounts end up as its last successful operations left them
		final := map[string]string{}
		for _, ac := range accts {
			k, _ := key(ac)
			if cur, ok := w.ref[k]; ok {
				final[k] = cur
			}
		}
		doAdmin := func(o aop) {
			k, _ := key(o.acct)
			c := stamp()
			if o.del {
				if err := w.pt.DeleteUser(o.acct); err == nil {
					delete(final, k)
					rec(porcupine.Operation{ClientId: 0, Input: pin{"del", k, ""}, Call: c, Output: true, Return: stamp()})
				}
			} else if err := w.pt.SetUserPassword(o.acct, o.pass); err == nil {
				final[k] = o.pass
				rec(porcupine.Operation{ClientId: 0, Input: pin{"set", k, o.pass}, Call: c, Output: true, Return: stamp()})
			}
		}
		// in half of the histories the administrator's operations do not run
		// as a task of their own (which is over before the first client has
		// said EHLO) but each in its entirety right after a credentials lookup
		// of an authentication has read its value: the schedule in which an
		// authentication decides on an entry that has just been replaced
		inline := s.T.Choose(st, 2) == 0
		adminBusy := false
		if inline {
			w.tbl.AfterLookup = func(string) {
				if adminBusy || len(aops) == 0 || s.T.Choose("sched", 2) == 0 {
					return
				}
				adminBusy = true
				o := aops[0]
				aops = aops[1:]
				s.Stat("admin_op_inside_authentication")
				doAdmin(o)
				adminBusy = false
			}
		}
		s.Spawn("admin", nil, func() {
			defer func() { fin++ }()
			if inline {
				return
			}
			for _, o := range aops {
				simrt.Point("admin", "op")
				doAdmin(o)
			}
		})
		for ci := 0; ci < nCl; ci++ {
			ci := ci
			type cop struct{ acct, pass string }
			var cops []cop
			for j, m := 0, 1+s.T.Choose(st, 2); j < m; j++ {
				cops = append(cops, cop{accts[s.T.Choose(st, 2)], []string{"c1", "c2", "c3", "pw1"}[s.T.Choose(st, 4)]})
			}
			s.Spawn(fmt.Sprintf("cc%d", ci+1), nil, func() {
				defer func() { fin++ }()
				for j, o := range cops {
					k, _ := key(o.acct)
					c := stamp()
					res := w.attempt(fmt.Sprintf("cc%d-%d", ci+1, j), "plain", o.acct, o.pass, "")
					rec(porcupine.Operation{ClientId: ci + 1, Input: pin{"auth", k, o.pass}, Call: c, Output: res.ok, Return: stamp()})
				}
			})
		}
		s.Run(time.Hour, func() bool { return fin == nCl+1 })
		w.tbl.AfterLookup = nil
		if inline && len(aops) > 0 && fin == nCl+1 {
			// what no lookup triggered happens afterwards
			rest := false
			s.Spawn("admin-rest", nil, func() {
				defer func() { rest = true }()
				for _, o := range aops {
					doAdmin(o)
				}
			})
			s.Run(time.Hour, func() bool { return rest })
		}
		if fin != nCl+1 && len(s.Violations()) == 0 {
			simrt.Harnessf("concurrent phase did not finish; parked=%v", s.ParkedKeys())
		}
		s.Stat("concurrent_histories")
		// quiescent state: authentication is a read - after everything has
		// returned, exactly the password the administrator set last is valid
		if len(s.Violations()) == 0 && fin == nCl+1 {
			probed := false
			s.Spawn("finalprobe", nil, func() {
				defer func() { probed = true }()
				for _, ac := range accts {
					k, _ := key(ac)
					cur, exists := final[k]
					cands := []string{"c1", "c2", "c3", "pw1"}
					if old, ok := w.ref[k]; ok && !contains(cands, old) {
						cands = append(cands, old)
					}
					for j, p := range cands {
						res := w.attempt(fmt.Sprintf("fp-%s-%d", ac, j), "plain", ac, p, "")
						switch {
						case exists && p == cur && !res.ok:
							s.Violate("C14/rejected-current-password/after-concurrent", "after the concurrent phase AUTH PLAIN %q with the password set last (%q) failed: %s", ac, p, res.reply)
						case exists && p != cur && res.ok:
							s.Violate("C14/accepted-wrong-password/after-concurrent", "after the concurrent phase AUTH PLAIN %q succeeded with %q although the password set last is %q", ac, p, cur)
						case !exists && res.ok:
							s.Violate("C14/accepted-deleted-account/after-concurrent", "after the concurrent phase AUTH PLAIN %q succeeded with %q although the account was deleted last", ac, p)
						}
					}
				}
			})
			s.Run(time.Hour, func() bool { return probed })
			for k, v := range final {
				w.ref[k] = v
			}
			for _, ac := range accts {
				if k, _ := key(ac); final[k] == "" {
					if _, ok := final[k]; !ok {
						delete(w.ref, k)
					}
				}
			}
		}
		resL, _ := porcupine.CheckOperationsVerbose(regModel, hist, 20*time.Second)
		switch resL {
		case porcupine.Illegal:
			var d []string
			for _, o := range hist {
				d = append(d, fmt.Sprintf("[%d,%d] c%d %s", o.Call, o.Return, o.ClientId, regModel.DescribeOperation(o.Input, o.Output)))
			}
			s.Violate("C14/not-linearizable", "history of account operations and authentications is not linearizable: %s", strings.Join(d, "; "))
		case porcupine.Unknown:
			inconclusive = true
			s.Stat("linearizability_inconclusive")
		}
	}
	_ = inconclusive

	// let the server side of every connection finish its own close first
	s.Run(time.Second, nil)
	closed := false
	s.Spawn("shutdown", nil, func() {
		l.Close()
		w.endp.VerifCloseServer()
		closed = true
	})
	s.Run(time.Minute, func() bool { return closed })
	for _, p := range s.Panics() {
		if p.Func != "HARNESS" {
			s.Violate("C14/panic/"+p.Func, "task %s panicked: %s", p.Task, p.Value)
		}
	}
	var sb strings.Builder
	fmt.Fprintf(&sb, "map=%d", w.mapK)
	for _, o := range ops {
		fmt.Fprintf(&sb, " %s(%q,%d,%s)", o.kind, o.user, len(o.pass), o.mech)
	}
	r.Shape = sb.String()
	r.Nontrivial = true
	r.Sample = map[string]interface{}{"auth_map": []string{"none", "identity", "static alice->bob->carol", "regexp (.+)-alias"}[w.mapK], "history": sb.String()}
}

func (w *world) describe(user string) string {
	n, ok := key(user)
	if !ok {
		return "name has no normal form"
	}
	m, ok := w.mapped(n)
	if !ok {
		return fmt.Sprintf("normalized %q, not mapped", n)
	}
	k, _ := key(m)
	cur, exists := w.ref[k]
	return fmt.Sprintf("normalized %q, account %q exists=%v password=%q", n, k, exists, cur)
}

func contains(xs []string, x string) bool {
	for _, y := range xs {
		if y == x {
			return true
		}
	}
	return false
}
