package ep

import (
	"context"
	"fmt"
	"sort"
	"strings"
	"sync"
	"time"

	"github.com/emersion/go-message/textproto"
	"github.com/emersion/go-smtp"
	"github.com/foxcpp/maddy/framework/buffer"
	"github.com/foxcpp/maddy/framework/config"
	"github.com/foxcpp/maddy/framework/log"
	"github.com/foxcpp/maddy/framework/module"
	"github.com/foxcpp/maddy/internal/msgpipeline"
	"github.com/foxcpp/maddy/internal/verifsim/actors"
	"github.com/foxcpp/maddy/internal/verifsim/harness"
	"github.com/foxcpp/maddy/internal/verifsim/simrt"
)

// World for the pipeline clause of C09: the real msgpipeline (built from
// config nodes) with a recipient-rewriting modifier (1 -> N) in the global, the
// source or the destination block, per-recipient targets that fail some of the
// rewritten addresses, driven through the PartialDelivery API like the LMTP
// endpoint does. Every status the pipeline reports must be keyed by an address
// the client supplied, and a client recipient one of whose expansions failed
// must get a failure.

type keyLog struct {
	mu   sync.Mutex
	keys map[string][]error
}

func (k *keyLog) SetStatus(rcpt string, err error) {
	k.mu.Lock()
	k.keys[rcpt] = append(k.keys[rcpt], err)
	k.mu.Unlock()
}

// RunC09P is the world function for the pipeline part of C09.
func RunC09P(s *simrt.Sim, a *harness.Args, r *harness.Result) {
	log.DefaultLogger.Out = log.NopOutput{}
	const st = "scen"
	s.MaxSteps = 40000
	where := []string{"global", "source", "destination"}[s.T.Choose(st, 3)]
	rewrite := map[string][]string{}
	clientRcpts := []string{"list@a.example", "u2@a.example", "alias@a.example", "v1@b.example", "v2@b.example"}
	// recipients at b.example go to a second target (its own kind and plan)
	two := s.T.Choose(st, 2) == 1
	rewrite["list@a.example"] = []string{"m1@a.example", "m2@a.example", "m3@a.example"}[:1+s.T.Choose(st, 3)]
	if s.T.Choose(st, 2) == 1 {
		rewrite["alias@a.example"] = []string{"real@a.example"}
	}
	// a chain: one client recipient is rewritten to an address that another
	// client recipient of the same message supplied, which is itself rewritten
	// (a rewrite is applied once; results travel back one step, not to the
	// end of the chain)
	chain := s.T.Choose(st, 3) == 0
	if chain {
		rewrite["alias@a.example"] = []string{"u2@a.example"}
		rewrite["u2@a.example"] = []string{"real2@a.example"}
	}
	if !chain && s.T.Choose(st, 3) == 0 {
		// a rewrite whose result differs from what the client supplied only in
		// letter case (a normalising alias table): still a rewrite - the result
		// is reported under the client's spelling
		clientRcpts[1] = "Tester@a.example"
		rewrite["Tester@a.example"] = []string{"tester@a.example"}
	}
	mod := &actors.ScriptedModifier{Label: "rw"}
	mod.PlanFor = func(*module.MsgMetadata) *actors.ModPlan { return &actors.ModPlan{Rewrite: rewrite} }
	module.RegisterInstance(mod, nil)
	delete(module.Initialized, "rw")
	tgt := &actors.ScriptedTarget{Label: "t1", Partial: s.T.Choose(st, 4) != 0, Prop: ""}
	plan := &actors.StagePlan{Rcpt: map[string]actors.Outcome{}, Status: map[string]actors.Outcome{}, Var: s.T.Choose("plan", 48)}
	all := []string{"m1@a.example", "m2@a.example", "m3@a.example", "real@a.example", "u2@a.example", "alias@a.example", "list@a.example", "real2@a.example"}
	for _, x := range all {
		if s.T.Bool("plan", 1, 4) {
			plan.Status[x] = actors.Outcome(1 + s.T.Choose("plan", 2))
		}
	}
	if s.T.Bool("plan", 1, 8) {
		plan.Body = actors.Temp
	}
	tgt.PlanFor = func(*actors.TxRecord) *actors.StagePlan { return plan }
	module.RegisterInstance(tgt, nil)
	delete(module.Initialized, "t1")
	tgt2 := &actors.ScriptedTarget{Label: "t2", Partial: s.T.Choose(st, 2) == 1, Prop: ""}
	plan2 := &actors.StagePlan{Rcpt: map[string]actors.Outcome{}, Status: map[string]actors.Outcome{}, Var: s.T.Choose("plan", 48)}
	for _, x := range []string{"v1@b.example", "v2@b.example"} {
		if s.T.Bool("plan", 1, 4) {
			plan2.Status[x] = actors.Outcome(1 + s.T.Choose("plan", 2))
		}
	}
	if s.T.Bool("plan", 1, 4) {
		plan2.Body = actors.Outcome(1 + s.T.Choose("plan", 2))
	}
	tgt2.PlanFor = func(*actors.TxRecord) *actors.StagePlan { return plan2 }
	module.RegisterInstance(tgt2, nil)
	delete(module.Initialized, "t2")
	modBlock := block("modify", nil, node("&rw"))
	deliver := node("deliver_to", "&t1")
	// the target of a.example may sit behind a nested pipeline
	nested := s.T.Choose(st, 2) == 1
	if nested {
		deliver = block("reroute", nil, node("deliver_to", "&t1"))
	}
	destA := block("destination", []string{"a.example"}, deliver)
	destB := block("destination", []string{"b.example"}, node("deliver_to", "&t2"))
	rej := block("default_destination", nil, node("reject"))
	var cfg []config.Node
	switch where {
	case "global":
		cfg = []config.Node{modBlock, destA, destB, rej}
	case "source":
		cfg = []config.Node{block("default_source", nil, modBlock, destA, destB, rej)}
	default:
		cfg = []config.Node{block("destination", []string{"a.example"}, modBlock, deliver), destB, rej}
	}
	var pipe *msgpipeline.MsgPipeline
	var berr error
	built := false
	s.Spawn("boot", nil, func() {
		pipe, berr = msgpipeline.New(nil, cfg)
		built = true
	})
	s.Run(time.Second, func() bool { return built })
	if !built || berr != nil {
		simrt.Harnessf("pipeline config: %v", berr)
	}
	pipe.Hostname = "mx.sim.example"
	pipe.Log = log.Logger{Out: log.NopOutput{}}
	n := 1 + s.T.Choose(st, 3)
	if chain {
		n = 3
	}
	rcpts := append([]string{}, clientRcpts[:n]...)
	if two {
		rcpts = append(rcpts, clientRcpts[3:3+1+s.T.Choose(st, 2)]...)
	}
	kl := &keyLog{keys: map[string][]error{}}
	accepted := map[string]bool{}
	done := false
	s.Spawn("driver", nil, func() {
		defer func() { done = true }()
		ctx := context.Background()
		meta := &module.MsgMetadata{ID: "p1", OriginalFrom: "sender@origin.example"}
		d, err := pipe.Start(ctx, meta, "sender@origin.example")
		if err != nil {
			return
		}
		for _, rc := range rcpts {
			if err := d.AddRcpt(ctx, rc, smtp.RcptOptions{}); err == nil {
				accepted[rc] = true
			}
		}
		h := textproto.Header{}
		h.Add("Subject", "c09")
		d.(module.PartialDelivery).BodyNonAtomic(ctx, kl, h, buffer.MemoryBuffer{Slice: []byte("x\r\n")})
		d.Commit(ctx)
	})
	s.Run(time.Minute, func() bool { return done })
	if !done {
		simrt.Harnessf("driver did not finish; parked=%v", s.ParkedKeys())
	}
	for _, p := range s.Panics() {
		if p.Func != "HARNESS" {
			s.Violate("C09/panic/"+p.Func, "task %s panicked: %s", p.Task, p.Value)
		}
	}
	// oracle
	var keys []string
	for k := range kl.keys {
		keys = append(keys, k)
	}
	sort.Strings(keys)
	for _, k := range keys {
		if !accepted[k] {
			s.Violate("C09/pipeline-status-rewritten-address/"+where, "the pipeline reported a result for %q, which the client never supplied (client recipients %v, rewrites %v)", k, rcpts, rewrite)
		}
	}
	for _, rc := range rcpts {
		if !accepted[rc] {
			continue
		}
		own := tgt
		if strings.HasSuffix(rc, "@b.example") {
			own = tgt2
		}
		txs := own.Records()
		if len(txs) == 0 || !txs[0].BodyCall {
			continue
		}
		tx := txs[0]
		exp := rewrite[rc]
		if exp == nil {
			exp = []string{rc}
		}
		failed := false
		for _, e := range exp {
			if tx.Partial && tx.Statuses[e] != actors.OK {
				failed = true
			}
			if !tx.Partial && tx.BodyRes != actors.OK {
				failed = true
			}
		}
		gotFail := false
		for _, e := range kl.keys[rc] {
			if e != nil {
				gotFail = true
			}
		}
		if failed && !gotFail {
			s.Violate("C09/pipeline-status-missing/"+where, "client recipient %q expands to %v of which target %s failed some, yet no failure was reported under %q (reported keys %v)", rc, exp, own.Label, rc, keys)
		}
	}
	// recipients that are not rewritten 1 -> N get exactly one result, and it
	// is the result of their own target
	recOf := func(t *actors.ScriptedTarget) *actors.TxRecord {
		if tx := t.Records(); len(tx) > 0 {
			return tx[0]
		}
		return nil
	}
	bodyStage := false
	for _, t := range []*actors.ScriptedTarget{tgt, tgt2} {
		if tx := recOf(t); tx != nil && tx.BodyCall {
			bodyStage = true
		}
	}
	for _, rc := range rcpts {
		if !accepted[rc] || !bodyStage || len(rewrite[rc]) > 1 {
			continue
		}
		res := kl.keys[rc]
		// (a success may go unreported: the collector contract makes SetStatus
		// optional for delivered recipients, but it "should not be called
		// multiple times for the same value")
		if len(res) > 1 {
			s.Violate("C09/pipeline-status-count/"+where, "client recipient %q (no 1-to-N rewrite) got %d results %v, want at most one", rc, len(res), res)
			continue
		}
		if len(res) == 0 {
			continue
		}
		own, eff := tgt, rc
		if strings.HasSuffix(rc, "@b.example") {
			own = tgt2
		}
		if len(rewrite[rc]) == 1 {
			eff = rewrite[rc][0]
		}
		tx := recOf(own)
		if tx == nil || !tx.BodyCall {
			continue
		}
		ownFailed := (tx.Partial && tx.Statuses[eff] != actors.OK) || (!tx.Partial && tx.BodyRes != actors.OK)
		if !ownFailed && res[0] != nil {
			// (a failure elsewhere may legitimately abort the whole message
			// only if no target is told to commit; that is C03's concern. Here:
			// the result of a recipient reflects its own target.)
			other := tgt2
			if own == tgt2 {
				other = tgt
			}
			if otx := recOf(other); otx != nil && otx.BodyCall {
				s.Violate("C09/pipeline-status-foreign-failure/"+where, "client recipient %q was delivered by its own target %s, yet the pipeline reported %v for it (the failure belongs to target %s)", rc, own.Label, res[0], other.Label)
			}
		}
	}
	s.Stat("pipeline_status_runs")
	r.Shape = fmt.Sprintf("nested=%v chain=%v where=%s rw=%v rcpts=%v partial=%v/%v st=%v/%v body=%v/%v", nested, chain, where, rewrite, rcpts, tgt.Partial, tgt2.Partial, plan.Status, plan2.Status, plan.Body, plan2.Body)
	r.Nontrivial = len(kl.keys) > 0
	r.Sample = map[string]interface{}{"scenario": r.Shape, "reported_keys": strings.Join(keys, ",")}
}
