package ep

import (
	"context"
	"fmt"
	"net"
	"sort"
	"strings"
	"time"

	"sync"

	"github.com/emersion/go-message/textproto"
	"github.com/emersion/go-msgauth/authres"
	"github.com/foxcpp/go-mockdns"
	"github.com/foxcpp/maddy/framework/buffer"
	"github.com/foxcpp/maddy/framework/config"
	modconfig "github.com/foxcpp/maddy/framework/config/module"
	"github.com/foxcpp/maddy/framework/exterrors"
	"github.com/foxcpp/maddy/framework/log"
	"github.com/foxcpp/maddy/framework/module"
	"github.com/foxcpp/maddy/internal/check"
	smtpendp "github.com/foxcpp/maddy/internal/endpoint/smtp"
	"github.com/foxcpp/maddy/internal/verifsim/actors"
	"github.com/foxcpp/maddy/internal/verifsim/harness"
	"github.com/foxcpp/maddy/internal/verifsim/simnet"
	"github.com/foxcpp/maddy/internal/verifsim/simrt"
)

// The C06 world: scripted checks placed in global / source / destination
// blocks of a real pipeline configuration (one instance may be referenced from
// several blocks), verdicts per stage, 1-3 recipients routed to different
// blocks, SMTP or LMTP, the completion order of the parallel check goroutines
// chosen by the scheduler. Targets never fail here.
//
// Configuration family (fixed, so that a small routing oracle knows which
// check applies to what):
//
//	check { &G [&X] }
//	source origin.example {
//	    check { &S }
//	    destination a.example { check { &D1 [&X] } deliver_to &t1 }
//	    destination b.example { check { &D2 } deliver_to &t2 }
//	    default_destination { reject 550 5.1.1 "no such recipient" }
//	}
//	default_source {
//	    destination a.example { deliver_to &t1 }
//	    destination b.example { deliver_to &t2 }
//	    default_destination { reject 550 5.1.1 "no such recipient" }
//	}

type c06Tx struct {
	*cTx
	plans map[string]*actors.CheckPlan // per check label
	// DMARC dimension: policy published for the From domain ("" = the message
	// has no From field) and what the checks report about SPF/DKIM
	dm   string // "", norecord, p-none, quarantine, reject, tempfail
	auth string // fail, dkim-pass, spf-pass, absent
	// modFail: recipients (as the client spells them) that the modifier of the
	// a.example destination block of source origin.example refuses
	modFail map[string]bool
}

// slowTXT delays TXT lookups and, like the real resolver, gives up when the
// context is cancelled.
type slowTXT struct {
	*mockdns.Resolver
	w *c06World
}

func (r slowTXT) LookupTXT(ctx context.Context, name string) ([]string, error) {
	simrt.Point("dns:txt", name)
	if d := r.w.dnsDelay; d > 0 {
		r.w.s.Stat("fault_check_dmarc_lookup_slow")
		t := time.NewTimer(d)
		select {
		case <-t.C:
		case <-ctx.Done():
			t.Stop()
			r.w.s.Stat("dmarc_lookup_cancelled")
			return nil, &net.DNSError{Err: ctx.Err().Error(), Name: name}
		case <-simrt.Done():
			t.Stop()
			simrt.ExitShutdown()
		}
		simrt.Yield("dns:txt-done")
	}
	return r.Resolver.LookupTXT(ctx, name)
}

type c06World struct {
	*world
	chk      map[string]*actors.ScriptedCheck
	xGlobal  bool // X referenced from the global block
	xInD1    bool // X referenced from destination a.example
	partial  map[string]bool
	txByFrom map[string]*c06Tx
	txs      []*c06Tx
	// noIgnore: this execution replaces every 'ignore' verdict by 'none'
	noIgnore  bool
	dmarc     bool          // the pipeline applies DMARC
	dnsDelay  time.Duration // latency of the policy lookup
	g2        bool          // a second global check G2 is configured
	twoCl     bool          // the transactions come from two concurrent sessions
	splitChk  bool          // global checks configured by separate `check` directives
	shareBias bool
	useL      bool   // the real stateless check L is configured (global)
	nested    bool   // b.example is delivered through a nested pipeline (reroute) with a check of its own
	nchk      *actors.ScriptedCheck
	d1mod     bool // the a.example block of source origin.example has a (scripted) modifier that may refuse recipients
	lAction   string // its fail_action: reject, quarantine, ignore
	lArgs     []string // the arguments of the directive when they are more than the action
	lTemp     bool     // ... and they make the rejection a temporary one
	lNoDirective bool  // no fail_action directive at all: the registered default (reject) applies
}

var c06Checks = []string{"G", "G2", "X", "S", "S2", "D1", "D2", "L"}

// Check L is a *real* stateless check (internal/check/stateless_check.go with
// its configurable fail_action from framework/config/module) around scripted
// per-stage functions: they decide pass/fail from the plan of the message whose
// metadata the framework hands them, and log under that message.
var (
	statelessOnce sync.Once
	curC06        *c06World
)

func registerStateless() {
	statelessOnce.Do(func() {
		check.RegisterStatelessCheck("verif_stateless", modconfig.FailAction{Reject: true},
			func(cc check.StatelessCheckContext) module.CheckResult { return curC06.stateless(cc, "conn", "") },
			func(cc check.StatelessCheckContext, from string) module.CheckResult {
				return curC06.stateless(cc, "sender", from)
			},
			func(cc check.StatelessCheckContext, rcpt string) module.CheckResult {
				return curC06.stateless(cc, "rcpt", rcpt)
			},
			func(cc check.StatelessCheckContext, _ textproto.Header, _ buffer.Buffer) module.CheckResult {
				return curC06.stateless(cc, "body", "")
			})
	})
}

func (w *c06World) stateless(cc check.StatelessCheckContext, stage, arg string) module.CheckResult {
	simrt.Point("chk:L", stage+":"+arg)
	tag := cc.MsgMeta.OriginalFrom
	v := actors.VNone
	if tx := w.txByFrom[tag]; tx != nil {
		p := tx.plans["L"]
		switch stage {
		case "conn":
			v = p.Conn
		case "sender":
			v = p.Sender
		case "rcpt":
			v = p.Rcpt[arg]
		case "body":
			v = p.Body
		}
	}
	if w.noIgnore && v == actors.VIgnore {
		v = actors.VNone
	}
	w.chk["L"].Log(actors.CheckCall{StateN: 1, Tag: tag, MsgID: cc.MsgMeta.ID, Stage: stage, Arg: arg, Verdict: v})
	if v == actors.VNone {
		return module.CheckResult{}
	}
	return module.CheckResult{Reason: &exterrors.SMTPError{Code: 550, EnhancedCode: exterrors.EnhancedCode{5, 7, 1}, Message: "stateless check says no (нет) at " + stage, CheckName: "L"}}
}

func (w *c06World) genScenario() {
	s := w.s
	const st = "scen"
	w.lmtp = s.T.Choose(st, 2) == 1
	w.deferRj = s.T.Choose(st, 2) == 1
	w.xGlobal = s.T.Choose(st, 2) == 1
	w.xInD1 = s.T.Choose(st, 2) == 1
	w.partial = map[string]bool{"t1": s.T.Choose(st, 2) == 1, "t2": s.T.Choose(st, 2) == 1}
	w.useL = s.T.Choose(st, 2) == 1
	w.lAction = []string{"reject", "quarantine", "ignore"}[s.T.Choose(st, 3)]
	w.d1mod = s.T.Choose(st, 3) == 0
	// the directive may carry a reply of its own (wrapped around the check's
	// reason), or be absent (the check's registered default applies: reject)
	switch s.T.Choose(st, 4) {
	case 0:
		switch w.lAction {
		case "reject":
			if s.T.Choose(st, 2) == 0 {
				w.lArgs = []string{"reject", "541", "5.4.0", "overridden by fail_action"}
			} else {
				w.lArgs = []string{"reject", "441", "4.4.0", "overridden by fail_action"}
				w.lTemp = true
			}
		case "quarantine":
			w.lArgs = []string{"quarantine", "542", "5.4.2", "quarantine reason overridden"}
		}
	case 1:
		if w.lAction == "reject" {
			w.lNoDirective = true
		}
	}
	w.g2 = s.T.Choose(st, 2) == 1
	w.twoCl = s.T.Choose(st, 2) == 1
	w.splitChk = s.T.Choose(st, 2) == 1
	if s.T.Choose(st, 4) == 0 {
		// biased sub-scenario: everything that makes concurrent sessions share
		// pipeline state at once (three separately configured global checks,
		// two sessions whose senders belong to different source blocks)
		w.g2, w.xGlobal, w.splitChk, w.twoCl, w.shareBias = true, true, true, true, true
	}
	// the b.example destinations hand over to a nested pipeline (`reroute`)
	// that runs a check N of its own (which never objects): the message
	// metadata - and so the quarantine flag - is shared with the outer pipeline
	w.nested = s.T.Choose(st, 3) == 0
	w.dmarc = s.T.Choose(st, 3) != 0
	w.dnsDelay = []time.Duration{0, 0, 100 * time.Millisecond, 10 * time.Second}[s.T.Choose(st, 4)]
	w.genTxs()
}

func stripIgnore(p *actors.CheckPlan) *actors.CheckPlan {
	f := func(v actors.Verdict) actors.Verdict {
		if v == actors.VIgnore {
			return actors.VNone
		}
		return v
	}
	q := &actors.CheckPlan{StateErr: p.StateErr, Conn: f(p.Conn), Sender: f(p.Sender), Body: f(p.Body), BodyAuth: p.BodyAuth, Rcpt: map[string]actors.Verdict{}}
	for k, v := range p.Rcpt {
		q.Rcpt[k] = f(v)
	}
	return q
}

var c06Rcpts = []string{"u1@a.example", "u2@a.example", "u4@b.example", "u5@b.example", "x@c.example"}

func rcptDomain(r string) string {
	return strings.ToLower(r[strings.LastIndex(r, "@")+1:])
}

func (w *c06World) genVerdict(stage string) actors.Verdict {
	t := w.s.T
	if !t.Bool("plan", 1, 5) {
		return actors.VNone
	}
	return actors.Verdict(1 + t.Choose("plan", 4))
}

func (w *c06World) build06() error {
	w.tgts = map[string]*actors.ScriptedTarget{}
	for _, n := range []string{"t1", "t2"} {
		t := &actors.ScriptedTarget{Label: n, Partial: w.partial[n], Prop: "C06"}
		w.tgts[n] = t
		module.RegisterInstance(t, nil)
		delete(module.Initialized, n)
	}
	w.chk = map[string]*actors.ScriptedCheck{}
	for _, n := range c06Checks {
		n := n
		c := &actors.ScriptedCheck{Label: n}
		c.PlanFor = func(m *module.MsgMetadata) *actors.CheckPlan {
			if tx := w.txByFrom[m.OriginalFrom]; tx != nil {
				if w.noIgnore {
					return stripIgnore(tx.plans[n])
				}
				return tx.plans[n]
			}
			return &actors.CheckPlan{}
		}
		w.chk[n] = c
		if n == "L" {
			// the instance named L is the real stateless check; the
			// ScriptedCheck object only keeps its call log
			registerStateless()
			curC06 = w
			mod, err := module.Get("verif_stateless")("verif_stateless", "L", nil, nil)
			if err != nil {
				return err
			}
			fa := []config.Node{node("fail_action", w.lAction)}
			if w.lArgs != nil {
				fa = []config.Node{node("fail_action", w.lArgs...)}
			}
			if w.lNoDirective {
				fa = nil
			}
			module.RegisterInstance(mod, config.NewMap(nil, config.Node{Children: fa}))
			delete(module.Initialized, n)
			continue
		}
		module.RegisterInstance(c, nil)
		delete(module.Initialized, n)
	}
	w.nchk = &actors.ScriptedCheck{Label: "N"}
	w.nchk.PlanFor = func(*module.MsgMetadata) *actors.CheckPlan { return &actors.CheckPlan{} }
	module.RegisterInstance(w.nchk, nil)
	delete(module.Initialized, "N")
	toT2 := node("deliver_to", "&t2")
	if w.nested {
		toT2 = block("reroute", nil, block("check", nil, node("&N")), node("deliver_to", "&t2"))
	}
	global := []config.Node{node("&G")}
	if w.g2 {
		global = append(global, node("&G2"))
	}
	if w.xGlobal {
		global = append(global, node("&X"))
	}
	if w.useL {
		global = append(global, node("&L"))
	}
	d1 := []config.Node{node("&D1")}
	if w.xInD1 {
		d1 = append(d1, node("&X"))
	}
	rej := block("default_destination", nil, node("reject", "550", "5.1.1", "no such recipient here"))
	d1blk := []config.Node{block("check", nil, d1...)}
	if w.d1mod {
		m := &actors.ScriptedModifier{Label: "modD1"}
		m.PlanFor = func(mm *module.MsgMetadata) *actors.ModPlan {
			mp := &actors.ModPlan{}
			if tx := w.txByFrom[mm.OriginalFrom]; tx != nil && len(tx.modFail) > 0 {
				mp.RcptErr = map[string]actors.Outcome{}
				for r := range tx.modFail {
					mp.RcptErr[r], mp.RcptErr[cleanAddr(r)] = actors.Perm, actors.Perm
				}
			}
			return mp
		}
		module.RegisterInstance(m, nil)
		delete(module.Initialized, "modD1")
		d1blk = append(d1blk, block("modify", nil, node("&modD1")))
	}
	d1blk = append(d1blk, node("deliver_to", "&t1"))
	cfg := []config.Node{
		node("hostname", "mx.sim.example"), node("tls", "off"),
		node("defer_sender_reject", map[bool]string{true: "yes", false: "no"}[w.deferRj]),
		node("dmarc", map[bool]string{true: "yes", false: "no"}[w.dmarc]),
	}
	if w.splitChk {
		// one `check` directive per global check instead of one block
		for _, g := range global {
			cfg = append(cfg, block("check", nil, g))
		}
	} else {
		cfg = append(cfg, block("check", nil, global...))
	}
	cfg = append(cfg,
		block("source", []string{"origin.example"},
			block("check", nil, node("&S")),
			block("destination", []string{"a.example"}, d1blk...),
			block("destination", []string{"b.example"}, block("check", nil, node("&D2")), toT2),
			rej),
		block("source", []string{"other.example"},
			block("check", nil, node("&S2")),
			block("destination", []string{"a.example"}, node("deliver_to", "&t1")),
			block("destination", []string{"b.example"}, toT2),
			rej),
		block("default_source", nil,
			block("destination", []string{"a.example"}, node("deliver_to", "&t1")),
			block("destination", []string{"b.example"}, toT2),
			rej),
	)
	name := "smtp"
	if w.lmtp {
		name = "lmtp"
	}
	mod, err := smtpendp.New(name, nil)
	if err != nil {
		return err
	}
	w.endp = mod.(*smtpendp.Endpoint)
	w.endp.Log = log.Logger{Out: log.NopOutput{}, Name: name}
	w.endp.VerifSetResolver(slowTXT{w: w, Resolver: &mockdns.Resolver{Zones: map[string]mockdns.Zone{
		"_dmarc.dm-p-none.example.":     {TXT: []string{"v=DMARC1; p=none"}},
		"_dmarc.dm-quarantine.example.": {TXT: []string{"v=DMARC1; p=quarantine"}},
		"_dmarc.dm-reject.example.":     {TXT: []string{"v=DMARC1; p=reject"}},
		"_dmarc.dm-tempfail.example.":   {Err: &net.DNSError{Err: "scripted SERVFAIL", Name: "_dmarc.dm-tempfail.example.", IsTemporary: true}},
	}}})
	return w.endp.Init(config.NewMap(nil, config.Node{Children: cfg}))
}

func (w *c06World) genTxs() {
	s := w.s
	const st = "scen"
	c := &client{name: "cl1", ip: "198.51.100.1:40000"}
	ntx := 1 + s.T.Choose(st, 2)
	if w.twoCl {
		ntx = 2 + s.T.Choose(st, 2)
	}
	w.txByFrom = map[string]*c06Tx{}
	nullUsed := false
	for j := 0; j < ntx; j++ {
		dom := []string{"origin.example", "origin.example", "other.example", "third.example"}[s.T.Choose(st, 4)]
		if w.shareBias {
			dom = []string{"origin.example", "other.example"}[j%2]
		}
		tx := &cTx{Marker: fmt.Sprintf("cl1-%d", j+1), From: fmt.Sprintf("s%d@%s", j+1, dom), Ending: endData}
		if !nullUsed && s.T.Choose(st, 6) == 0 {
			// the null sender (a bounce): default source, and every stage of
			// every applicable check all the same (one per run: transactions
			// are told apart by their sender)
			tx.From, dom, nullUsed = "", "", true
		}
		nr := 1 + s.T.Choose(st, 3)
		for k := 0; k < nr; k++ {
			r := c06Rcpts[s.T.Choose(st, len(c06Rcpts))]
			if !contains(tx.Rcpts, r) {
				tx.Rcpts = append(tx.Rcpts, r)
			}
		}
		if s.T.Choose(st, 4) == 0 {
			// the client repeats one of its RCPT commands (after a refusal: tries
			// again; after an acceptance: names the recipient twice) - a verdict
			// holds for every command that names the recipient
			at := s.T.Choose(st, len(tx.Rcpts))
			rep := tx.Rcpts[at]
			if s.T.Choose(st, 2) == 0 {
				tx.Rcpts = append(tx.Rcpts, rep)
			} else {
				tx.Rcpts = append(tx.Rcpts[:at+1], append([]string{rep}, tx.Rcpts[at+1:]...)...)
			}
		}
		ctx := &c06Tx{cTx: tx, plans: map[string]*actors.CheckPlan{}}
		if w.d1mod && dom == "origin.example" && s.T.Choose(st, 2) == 0 {
			var as []string
			for _, r := range tx.Rcpts {
				if rcptDomain(r) == "a.example" {
					as = append(as, r)
				}
			}
			if len(as) > 0 {
				ctx.modFail = map[string]bool{as[s.T.Choose(st, len(as))]: true}
			}
		}
		ctx.dm = []string{"", "norecord", "p-none", "quarantine", "quarantine", "reject", "tempfail"}[s.T.Choose(st, 7)]
		ctx.auth = []string{"fail", "fail", "dkim-pass", "spf-pass", "absent"}[s.T.Choose(st, 5)]
		hdr := "Subject: sim " + tx.Marker + "\r\nX-Sim-Tx: " + tx.Marker + "\r\n"
		fromDom := "dm-" + ctx.dm + ".example"
		if ctx.dm != "" {
			hdr += "From: <who@" + fromDom + ">\r\n"
		}
		tx.Payload = []byte(hdr + "\r\nbody\r\n")
		for _, n := range c06Checks {
			p := &actors.CheckPlan{Rcpt: map[string]actors.Verdict{}}
			p.Conn = w.genVerdict("conn")
			p.Sender = w.genVerdict("sender")
			p.Body = w.genVerdict("body")
			for _, r := range tx.Rcpts {
				// recipient-stage verdicts only for recipients the check is
				// responsible for (replays to out-of-scope recipients are
				// outside the statement)
				inScope := n == "G" || n == "G2" || n == "L" || n == "S" || n == "S2" || (n == "X" && w.xGlobal) ||
					((n == "D1" || (n == "X" && w.xInD1)) && rcptDomain(r) == "a.example") ||
					(n == "D2" && rcptDomain(r) == "b.example")
				if inScope {
					p.Rcpt[r] = w.genVerdict("rcpt")
				}
			}
			if n == "L" {
				// a stateless check only says pass/fail; the verdict is its
				// configured fail_action
				lv := map[string]actors.Verdict{"reject": actors.VRejectPerm, "quarantine": actors.VQuarantine, "ignore": actors.VIgnore}[w.lAction]
				if w.lTemp {
					lv = actors.VRejectTemp
				}
				fix := func(v actors.Verdict) actors.Verdict {
					if v != actors.VNone {
						return lv
					}
					return v
				}
				p.Conn, p.Sender, p.Body = fix(p.Conn), fix(p.Sender), fix(p.Body)
				for k, v := range p.Rcpt {
					p.Rcpt[k] = fix(v)
				}
			}
			ctx.plans[n] = p
		}
		// what the (global) check G reports about SPF and DKIM
		dkim := &authres.DKIMResult{Value: authres.ResultFail, Domain: "unrelated.example"}
		spf := &authres.SPFResult{Value: authres.ResultFail, From: "unrelated.example"}
		switch ctx.auth {
		case "dkim-pass":
			dkim = &authres.DKIMResult{Value: authres.ResultPass, Domain: fromDom}
		case "spf-pass":
			spf = &authres.SPFResult{Value: authres.ResultPass, From: fromDom}
		}
		if ctx.auth != "absent" {
			ctx.plans["G"].BodyAuth = []authres.Result{dkim, spf}
		}
		w.txByFrom[tx.From] = ctx
		w.txs = append(w.txs, ctx)
		c.txs = append(c.txs, tx)
	}
	w.clients = []*client{c}
}

// group evaluates one parallel group of checks at one stage: reject wins,
// otherwise a quarantine is recorded.
type groupRes struct{ reject, quarantine bool }

func evalGroup(vs []actors.Verdict) groupRes {
	var g groupRes
	for _, v := range vs {
		if v.Rejects() {
			g.reject = true
		}
	}
	if !g.reject {
		for _, v := range vs {
			if v == actors.VQuarantine {
				g.quarantine = true
			}
		}
	}
	return g
}

// model computes, from the verdict plan alone, what has to happen to the
// transaction. Quarantine flags seen in a group that also rejected, or at the
// recipient stage of a recipient that ends up refused, are "may"; all others
// are "must".
type c06Expect struct {
	mailReject bool
	rcptReject map[string]bool
	dataReject bool
	mustQ      bool
	mayQ       bool
}

func (w *c06World) model(tx *c06Tx) c06Expect {
	e := c06Expect{rcptReject: map[string]bool{}}
	fromOrigin := strings.HasSuffix(tx.From, "@origin.example")
	globals := []string{"G"}
	if w.g2 {
		globals = append(globals, "G2")
	}
	if w.xGlobal {
		globals = append(globals, "X")
	}
	if w.useL {
		globals = append(globals, "L")
	}
	var source []string
	if fromOrigin {
		source = []string{"S"}
	}
	if strings.HasSuffix(tx.From, "@other.example") {
		source = []string{"S2"}
	}
	blockChecks := func(dom string) []string {
		if !fromOrigin {
			return nil
		}
		switch dom {
		case "a.example":
			l := []string{"D1"}
			if w.xInD1 && !w.xGlobal {
				l = append(l, "X")
			}
			return l
		case "b.example":
			return []string{"D2"}
		}
		return nil
	}
	verd := func(names []string, f func(p *actors.CheckPlan) actors.Verdict) []actors.Verdict {
		var out []actors.Verdict
		for _, n := range names {
			out = append(out, f(tx.plans[n]))
		}
		return out
	}
	conn := func(p *actors.CheckPlan) actors.Verdict { return p.Conn }
	sender := func(p *actors.CheckPlan) actors.Verdict { return p.Sender }
	// MAIL: global group (conn, then sender), then source group
	for _, grp := range [][]string{globals, source} {
		if len(grp) == 0 {
			continue
		}
		for _, f := range []func(*actors.CheckPlan) actors.Verdict{conn, sender} {
			g := evalGroup(verd(grp, f))
			if g.reject {
				e.mailReject = true
				return e
			}
			if g.quarantine {
				e.mustQ = true
			}
		}
	}
	blocksSeen := map[string]bool{}
	blocksAccepted := map[string]bool{}
	accepted := 0
	for _, r := range tx.Rcpts {
		dom := rcptDomain(r)
		rej := false
		q := false
		rcptV := func(p *actors.CheckPlan) actors.Verdict { return p.Rcpt[r] }
		for _, grp := range [][]string{globals, source} {
			if len(grp) == 0 || rej {
				continue
			}
			g := evalGroup(verd(grp, rcptV))
			rej = rej || g.reject
			q = q || g.quarantine
		}
		if !rej && dom != "a.example" && dom != "b.example" {
			rej = true // routing: default_destination rejects
		}
		if !rej {
			bc := blockChecks(dom)
			if len(bc) > 0 {
				if !blocksSeen[dom] {
					// first recipient of the block: its checks are created and
					// see connection and sender now
					for _, f := range []func(*actors.CheckPlan) actors.Verdict{conn, sender} {
						if rej {
							break
						}
						g := evalGroup(verd(bc, f))
						rej = rej || g.reject
						q = q || g.quarantine
					}
					if !rej {
						blocksSeen[dom] = true
					}
				}
				if !rej {
					g := evalGroup(verd(bc, rcptV))
					rej = rej || g.reject
					q = q || g.quarantine
				}
				if !rej && !tx.modFail[r] {
					blocksAccepted[dom] = true
				}
			}
		}
		if !rej && tx.modFail[r] {
			// the block's modifier (after its checks) refuses the recipient:
			// the command fails, the block keeps what it accepted before
			rej = true
		}
		e.rcptReject[r] = rej
		if rej {
			if q {
				e.mayQ = true
			}
		} else {
			accepted++
			if q {
				e.mustQ = true
			}
		}
	}
	if accepted == 0 {
		return e
	}
	body := func(p *actors.CheckPlan) actors.Verdict { return p.Body }
	groups := [][]string{globals, source}
	var doms []string
	for d := range blocksAccepted {
		doms = append(doms, d)
	}
	sort.Strings(doms)
	for _, d := range doms {
		groups = append(groups, blockChecks(d))
	}
	for _, grp := range groups {
		if len(grp) == 0 {
			continue
		}
		g := evalGroup(verd(grp, body))
		if g.reject {
			e.dataReject = true
			return e
		}
		if g.quarantine {
			e.mustQ = true
		}
	}
	// DMARC, applied after all body checks. The lookup is asynchronous; its
	// latency must not change the result.
	if w.dmarc {
		switch {
		case tx.dm == "tempfail":
			e.dataReject = true // fails closed
		case tx.auth == "fail" && tx.dm == "reject":
			e.dataReject = true
		case tx.auth == "fail" && tx.dm == "quarantine":
			e.mustQ = true
		}
	}
	return e
}

// outcome is what one execution showed at the protocol boundary.
type c06Outcome struct {
	lines []string // per transaction: reply classes and what the targets saw
}

func replyClass(r actors.Reply) string {
	if r.Err != "" {
		return "E"
	}
	// which of several rejecting checks wins (and so whether the refusal is
	// 4yz or 5yz) is legal freedom; the outcome class is accept or refuse
	if r.Code/100 == 4 || r.Code/100 == 5 {
		return "R"
	}
	return fmt.Sprint(r.Code / 100)
}

// execute builds a fresh endpoint for the drawn scenario and runs the client.
func (w *c06World) execute(tag string) (byMarker map[string]map[string]*actors.TxRecord) {
	s := w.s
	var berr error
	built := false
	s.Spawn("boot"+tag, nil, func() {
		berr = w.build06()
		built = true
	})
	s.Run(time.Second, func() bool { return built })
	if !built || berr != nil {
		simrt.Harnessf("endpoint init failed: %v", berr)
	}
	// fresh result fields
	cls := []*client{{name: "cl" + tag, ip: "198.51.100.1:40000"}}
	if w.twoCl {
		// a second session runs concurrently (transactions are dealt out in turn)
		cls = append(cls, &client{name: "cm" + tag, ip: "198.51.100.2:41000"})
	}
	for i, tx := range w.txs {
		n := &cTx{Marker: tx.Marker, From: tx.From, Rcpts: tx.Rcpts, Ending: endData, Payload: tx.Payload}
		tx.cTx = n
		c := cls[i%len(cls)]
		c.txs = append(c.txs, n)
	}
	w.clients = cls
	w.net = simnet.New()
	l := w.net.Listen(listenAddr)
	s.Spawn("serve"+tag, nil, func() { w.endp.VerifServe(l) })
	for _, c := range cls {
		c := c
		s.Spawn(c.name, nil, func() { w.runClient(c) })
	}
	allDone := func() bool {
		for _, c := range cls {
			if !c.done {
				return false
			}
		}
		return true
	}
	res := s.Run(time.Hour, allDone)
	if !allDone() && len(s.Violations()) == 0 {
		simrt.Harnessf("clients did not finish (%v); parked=%v", res, s.ParkedKeys())
	}
	s.Run(time.Second, nil)
	closed := false
	s.Spawn("shutdown"+tag, nil, func() {
		l.Close()
		w.endp.VerifCloseServer()
		closed = true
	})
	s.Run(time.Minute, func() bool { return closed })
	byMarker = map[string]map[string]*actors.TxRecord{}
	for n, t := range w.tgts {
		for _, tx := range t.Records() {
			m := marker(tx)
			if m == "" {
				// a delivery that never got a body carries no marker header:
				// the (unique) sender address names its transaction
				if ct := w.txByFrom[tx.From]; ct != nil {
					m = ct.Marker
				}
			}
			if m != "" {
				if byMarker[m] == nil {
					byMarker[m] = map[string]*actors.TxRecord{}
				}
				if old := byMarker[m][n]; old == nil || tx.Commits > 0 || !old.BodyCall {
					byMarker[m][n] = tx
				}
			}
		}
	}
	return byMarker
}

func (w *c06World) outcome(byMarker map[string]map[string]*actors.TxRecord) c06Outcome {
	var o c06Outcome
	for _, tx := range w.txs {
		var sb strings.Builder
		fmt.Fprintf(&sb, "%s MAIL=%s RCPT=", tx.Marker, replyClass(tx.MailReply))
		for _, rr := range tx.RcptReplies {
			sb.WriteString(replyClass(rr))
		}
		sb.WriteString(" FINAL=")
		for _, f := range tx.Final {
			sb.WriteString(replyClass(f))
		}
		for _, n := range []string{"t1", "t2"} {
			if t := byMarker[tx.Marker][n]; t != nil {
				fmt.Fprintf(&sb, " %s{rcpts=%v commit=%d q=%v}", n, t.Accepted(), t.Commits, t.MetaAtBody.Quarantine)
			}
		}
		o.lines = append(o.lines, sb.String())
	}
	return o
}

// RunC06 is the world function for C06.
func RunC06(s *simrt.Sim, a *harness.Args, r *harness.Result) {
	log.DefaultLogger.Out = log.NopOutput{}
	w := &c06World{world: &world{s: s, a: a}}
	s.MaxSteps = 120000
	// completion order of the parallel check goroutines: random walk or
	// bounded preemption
	s.PreemptBudget = []int{0, 1, 2, 3, -1, -1}[s.T.Choose("knob", 6)]
	s.PreemptNum, s.PreemptDen = 1, 3
	w.genScenario()
	byMarker := w.execute("1")
	for _, p := range s.Panics() {
		if p.Func != "HARNESS" {
			s.Violate("C06/panic/"+p.Func, "task %s panicked: %s", p.Task, p.Value)
		}
	}
	if len(s.Violations()) == 0 {
		w.oracleC06(byMarker)
	}
	out1 := w.outcome(byMarker)
	ignores := 0
	for k, v := range s.Stats() {
		if strings.HasPrefix(k, "fault_check_") && strings.HasSuffix(k, "_ignore") {
			ignores += v
		}
	}
	if len(s.Violations()) == 0 && ignores > 0 {
		// metamorphic half: the same scenario with every 'ignore' replaced by
		// 'none' must look the same from outside
		w.noIgnore = true
		s.Stat("ignore_variant_runs")
		out2 := w.outcome(w.execute("2"))
		path := map[bool]string{true: "lmtp", false: "smtp"}[w.lmtp]
		for i := range out1.lines {
			if out1.lines[i] != out2.lines[i] {
				s.Violate("C06/ignore-changed-outcome/"+path, "with 'ignore' verdicts: %s; with them replaced by 'none': %s", out1.lines[i], out2.lines[i])
			}
		}
	}
	r.Shape = fmt.Sprintf("lmtp=%v defer=%v xg=%v xd=%v g2=%v 2cl=%v L=%v/%s nest=%v dmarc=%v/%v|%s", w.lmtp, w.deferRj, w.xGlobal, w.xInD1, w.g2, w.twoCl, w.useL, w.lAction+fmt.Sprint(len(w.lArgs), w.lNoDirective), w.nested, w.dmarc, w.dnsDelay, w.planShape())
	st := s.Stats()
	nf := 0
	for k, v := range st {
		if strings.HasPrefix(k, "fault_check") {
			nf += v
		}
	}
	r.Nontrivial = nf > 0
	r.Sample = map[string]interface{}{"scenario": r.Shape, "outcome": out1.lines}
}

func (w *c06World) planShape() string {
	var sb strings.Builder
	for _, tx := range w.txs {
		fmt.Fprintf(&sb, "[%s %v dm=%s/%s", tx.From, tx.Rcpts, tx.dm, tx.auth)
		for _, n := range c06Checks {
			p := tx.plans[n]
			fmt.Fprintf(&sb, " %s:%d%d%d", n, p.Conn, p.Sender, p.Body)
			for _, r := range tx.Rcpts {
				fmt.Fprintf(&sb, "%d", p.Rcpt[r])
			}
		}
		sb.WriteString("]")
	}
	return sb.String()
}

// oracleC06 checks the clauses that follow from the verdicts alone: a reject
// is enforced and nothing is delivered, a quarantine reaches every target, and
// every stage is seen once. It never demands acceptance: whether a message
// that nobody rejects is accepted is outside the statement (the 'ignore'
// clause is checked metamorphically in RunC06).
func (w *c06World) oracleC06(byMarker map[string]map[string]*actors.TxRecord) {
	s := w.s
	path := "smtp"
	if w.lmtp {
		path = "lmtp"
	}
	tgtOf := map[string]string{"a.example": "t1", "b.example": "t2"}
	for _, tx := range w.txs {
		e := w.model(tx)
		anyRcptOK := false
		for _, rr := range tx.RcptReplies {
			if rr.OK() {
				anyRcptOK = true
			}
		}
		if e.mailReject {
			if tx.MailReply.OK() && anyRcptOK {
				s.Violate("C06/reject-not-enforced/sender-stage/"+path, "%s: a global or source check rejects at the connection/sender stage, yet MAIL was answered %s and a RCPT was accepted", tx.Marker, tx.MailReply.String())
			}
			for n, t := range byMarker[tx.Marker] {
				if t.Commits > 0 {
					s.Violate("C06/reject-not-enforced/sender-stage/"+path, "%s: rejected at sender stage but committed to %s", tx.Marker, n)
				}
			}
			w.stageCounts(tx, false, path)
			continue
		}
		var acceptedRcpts []string
		for i, r := range tx.Rcpts {
			if i >= len(tx.RcptReplies) {
				break
			}
			ok := tx.RcptReplies[i].OK()
			if e.rcptReject[r] && ok {
				s.Violate("C06/reject-not-enforced/rcpt-stage/"+path, "%s: an applicable check (or routing) rejects recipient %s, yet RCPT was answered %s", tx.Marker, r, tx.RcptReplies[i].String())
			}
			if e.rcptReject[r] {
				for n, t := range byMarker[tx.Marker] {
					if t.Commits > 0 && contains(t.Accepted(), cleanAddr(r)) {
						s.Violate("C06/reject-not-enforced/rcpt-stage/"+path, "%s: recipient %s is rejected by a check, yet it was delivered to %s", tx.Marker, r, n)
					}
				}
			}
			if ok {
				acceptedRcpts = append(acceptedRcpts, r)
			}
		}
		if len(acceptedRcpts) == 0 || !tx.SentBody || len(tx.Final) == 0 {
			w.stageCounts(tx, false, path)
			continue
		}
		refused := true
		for _, f := range tx.Final {
			if f.OK() {
				refused = false
			}
		}
		// the model's body verdict is only meaningful if the accepted set is
		// the one the model computed
		sameSet := true
		for i, r := range tx.Rcpts {
			if i < len(tx.RcptReplies) && tx.RcptReplies[i].OK() == e.rcptReject[r] {
				sameSet = false
			}
		}
		if e.dataReject && sameSet {
			if !refused {
				s.Violate("C06/reject-not-enforced/body-stage/"+path, "%s: an applicable check rejects the body, yet the message was answered %v", tx.Marker, tx.Final)
			}
			for n, t := range byMarker[tx.Marker] {
				if t.Commits > 0 {
					s.Violate("C06/reject-not-enforced/body-stage/"+path, "%s: body rejected but committed to %s", tx.Marker, n)
				}
			}
			w.stageCounts(tx, false, path)
			continue
		}
		if refused {
			w.stageCounts(tx, false, path)
			continue
		}
		// accepted: a quarantine verdict must have reached every target
		for _, r := range acceptedRcpts {
			tn := tgtOf[rcptDomain(r)]
			t := byMarker[tx.Marker][tn]
			if t == nil || !t.BodyCall {
				continue
			}
			if e.mustQ && sameSet && !t.MetaAtBody.Quarantine {
				s.Violate("C06/quarantine-not-propagated/"+path, "%s: a check quarantines, yet target %s saw Quarantine=false", tx.Marker, tn)
			}
		}
		w.stageCounts(tx, sameSet, path)
	}
}

// stageCounts: no check state sees a stage twice, and for an accepted message
// every applicable check saw connection, sender, each accepted recipient in
// its scope and the body exactly once (over its state objects that were not
// discarded after a rejection).
func (w *c06World) stageCounts(tx *c06Tx, accepted bool, path string) {
	s := w.s
	fromOrigin := strings.HasSuffix(tx.From, "@origin.example")
	for _, n := range c06Checks {
		perState := map[int]map[string]int{}
		total := map[string]int{}
		for _, c := range w.chk[n].Calls {
			if c.Tag != tx.From || c.Stage == "close" || c.Stage == "state" {
				continue
			}
			k := c.Stage
			if c.Stage == "rcpt" {
				k += ":" + c.Arg
			}
			if perState[c.StateN] == nil {
				perState[c.StateN] = map[string]int{}
			}
			perState[c.StateN][k]++
			total[k]++
		}
		for sn, cnt := range perState {
			for k, v := range cnt {
				if v > 1 {
					s.Violate("C06/stage-count/>1/"+strings.Split(k, ":")[0]+"/"+path, "%s: check %s (state %d) saw stage %s %d times for one message", tx.Marker, n, sn, k, v)
				}
			}
		}
		if !accepted {
			continue
		}
		scopeDom := map[string]string{"D1": "a.example", "D2": "b.example"}[n]
		applicable := n == "G" || (n == "G2" && w.g2) || (n == "L" && w.useL) || (n == "X" && (w.xGlobal || (w.xInD1 && fromOrigin))) || (fromOrigin && (n == "S" || n == "D1" || n == "D2")) ||
			(n == "S2" && strings.HasSuffix(tx.From, "@other.example"))
		if n == "X" && !w.xGlobal {
			scopeDom = "a.example"
		}
		var inScope []string
		for i, r := range tx.Rcpts {
			if i < len(tx.RcptReplies) && tx.RcptReplies[i].OK() && (scopeDom == "" || rcptDomain(r) == scopeDom) {
				inScope = append(inScope, cleanAddr(r))
			}
		}
		if scopeDom != "" && len(inScope) == 0 {
			applicable = false
		}
		if !applicable {
			continue
		}
		// the state object that survived to the body stage
		for _, st := range []string{"conn", "sender", "body"} {
			if total[st] == 0 {
				s.Violate("C06/stage-count/0/"+st+"/"+path, "%s (accepted): applicable check %s never saw stage %s", tx.Marker, n, st)
			}
		}
		for _, r := range inScope {
			if total["rcpt:"+r] == 0 {
				s.Violate("C06/stage-count/0/rcpt/"+path, "%s (accepted): applicable check %s never saw recipient %s", tx.Marker, n, r)
			}
		}
	}
}
