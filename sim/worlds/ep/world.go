// Package ep is the endpoint world: the real endpoint/smtp (smtp, submission,
// lmtp) = real go-smtp server on a simulated listener + real msgpipeline built
// from configuration nodes + real limits, driven by scripted SMTP clients over
// the simulated network, with scripted targets, checks and modifiers behind it.
package ep

import (
	"bytes"
	"context"
	"encoding/base64"
	"errors"
	"fmt"
	"net"
	"sort"
	"strings"
	"time"

	"github.com/foxcpp/go-mockdns"
	"github.com/foxcpp/maddy/framework/config"
	"github.com/foxcpp/maddy/framework/exterrors"
	"github.com/foxcpp/maddy/framework/log"
	"github.com/foxcpp/maddy/framework/module"
	smtpendp "github.com/foxcpp/maddy/internal/endpoint/smtp"
	"github.com/foxcpp/maddy/internal/verifsim/actors"
	"github.com/foxcpp/maddy/internal/verifsim/harness"
	"github.com/foxcpp/maddy/internal/verifsim/simfs"
	"github.com/foxcpp/maddy/internal/verifsim/simnet"
	"github.com/foxcpp/maddy/internal/verifsim/simrt"
	"golang.org/x/net/idna"
)

const listenAddr = "192.0.2.10:25"

// ending of a client transaction
const (
	endData = iota
	endRset
	endDisconnect
	endDisconnectMidData
	endQuit
	endNoopThenData
	endNestedMailThenData
	endEhloMidTx
	nEndings
)

// ending of a BDAT (CHUNKING) body transfer
const (
	bdatComplete   = iota // chunks, the last one marked LAST
	bdatZeroLast          // all chunks unmarked, then "BDAT 0 LAST"
	bdatDataMid           // a DATA command between chunks (must be refused, transfer goes on)
	bdatRset              // RSET after a chunk that was not the last
	bdatDisconnect        // connection dropped after a chunk that was not the last
	bdatQuit              // QUIT after a chunk that was not the last
)

type cTx struct {
	Marker    string
	From      string
	UTF8      bool
	Rcpts     []string
	Ending    int
	CutInBody bool // endDisconnectMidData: where the connection breaks
	NoReset   bool // no accepted recipient: go on with the next MAIL without DATA/RSET
	EhloFails bool // endEhloMidTx: an early (connection-level) check refuses the repeated greeting
	// Stray: one more command that does not belong to the transaction, sent
	// before MAIL (StrayAt 0), after MAIL (1) or after the RCPTs (2)
	Stray      string
	StrayAt    int
	StrayReply actors.Reply
	Pause     bool // the client idles 6 s (longer than the limit time-out) before the body
	Chunks    int  // 0: DATA; n>0: BDAT in n chunks
	AuthAt    int  // 0: no AUTH in this transaction; 1 before MAIL, 2 after MAIL, 3 after the RCPTs
	AuthKind  int  // see authGood...
	AuthReply actors.Reply
	BdatEnd   int
	Payload   []byte

	ChunkReplies []actors.Reply // replies to BDAT chunks that were not the last

	MailReply   actors.Reply
	RcptReplies []actors.Reply
	DataReply   actors.Reply   // reply to DATA (354 expected)
	Final       []actors.Reply // after the final dot: one (SMTP) or one per accepted recipient (LMTP)
	Foreign     []actors.Reply // LMTP replies naming a recipient this transaction did not send
	SentBody    bool
	Done        bool
}

// kinds of AUTH exchanges a client performs
const (
	authGood    = iota // PLAIN, accepted by the provider
	authBad            // PLAIN, unknown credentials
	authTemp           // PLAIN, the provider fails temporarily
	authGarbage        // PLAIN with an initial response that is not base64
	authCancel         // LOGIN, cancelled with "*" after the first challenge
	authLogin          // LOGIN, accepted
	nAuthKinds
)

// scriptedAuth is the credentials provider of the endpoint (module.PlainAuth):
// the password decides the result.
type scriptedAuth struct {
	calls int
}

func (a *scriptedAuth) Init(*config.Map) error { return nil }
func (a *scriptedAuth) Name() string           { return "scripted_auth" }
func (a *scriptedAuth) InstanceName() string   { return "authp" }
func (a *scriptedAuth) SimLabel() string       { return "authp" }
func (a *scriptedAuth) AuthPlain(user, pass string) error {
	simrt.Point("auth:authp", "plain")
	a.calls++
	switch pass {
	case "good":
		return nil
	case "temp":
		if s := simrt.Cur(); s != nil {
			s.Stat("fault_auth_provider_temporary")
		}
		return exterrors.WithTemporary(errors.New("scripted provider failure "+actors.SecretMarker), true)
	}
	return module.ErrUnknownCredentials
}

// earlyCheck makes a scripted check an early (connection-level) check too: it
// is asked at every greeting, before a session exists, and objects when the
// client about to greet again asked for it.
type earlyCheck struct {
	*actors.ScriptedCheck
	w *world
}

func (e earlyCheck) CheckConnection(ctx context.Context, state *module.ConnState) error {
	addr := ""
	if state != nil && state.RemoteAddr != nil {
		addr = state.RemoteAddr.String()
	}
	// (runs on an anonymous goroutine of an errgroup: the connection goes
	// into the key, or two clients greeting at once would be indistinguishable
	// to the scheduler)
	simrt.Point("chk:"+e.Label, "early|"+addr)
	if e.w.failEarly[addr] {
		delete(e.w.failEarly, addr)
		e.w.s.Stat("fault_check_early_reject")
		return actors.MkErr(actors.Temp, 0, "early check "+e.Label)
	}
	return nil
}

type client struct {
	name string
	ip   string
	// AuthFirst: authenticate right after the greeting (kind in AuthKind)
	AuthFirst bool
	AuthKind  int
	AuthReply actors.Reply
	txs  []*cTx
	helo actors.Reply
	done bool
}

type world struct {
	s        *simrt.Sim
	a        *harness.Args
	lmtp     bool
	deferRj  bool
	limitN   int
	limScope string
	family   int
	authMode int // 0: no provider; 1: provider, authentication optional; 2: submission endpoint
	authp    *scriptedAuth
	// failEarly: client address -> the next early check for that connection fails
	failEarly map[string]bool
	tgts     map[string]*actors.ScriptedTarget
	plans    map[string][]*actors.StagePlan
	checks   []*actors.ScriptedCheck
	cplans   map[string][]*actors.CheckPlan
	cseen    map[string]int
	mod      *actors.ScriptedModifier
	mplans   []*actors.ModPlan
	mseen    int
	// further modifiers of the source-block family (label -> plans / calls seen)
	xmods    map[string]*actors.ScriptedModifier
	xmplans  map[string][]*actors.ModPlan
	xmseen   map[string]int
	endp     *smtpendp.Endpoint
	net      *simnet.Net
	clients  []*client
	shutDown bool // the server has been shut down in the middle of the run
	fileBuf  bool // bodies are spilled to a file buffer on the simulated disk
}

var rcptPool = []string{"u1@a.example", "u2@a.example", "U3@A.EXAMPLE", "u4@b.example", "u5@b.example", "x@c.example", "ü6@a.example", "u7@xn--e1aybc.example"}
var fromPool = []string{"sender@origin.example", "", "S2@Origin.EXAMPLE", "bad address", "ö@origin.example", "x@blocked.example", "y@elsewhere.example"}

// route is the routing oracle for the fixed configuration families.
func (w *world) route(rcpt string) []string {
	i := strings.LastIndex(rcpt, "@")
	if i < 0 {
		return nil
	}
	dom := strings.ToLower(rcpt[i+1:])
	if u, err := idna.ToUnicode(dom); err == nil {
		dom = u
	}
	if w.family == 1 {
		return []string{"t1"}
	}
	switch dom {
	case "a.example":
		return []string{"t1"}
	case "b.example":
		return []string{"t2", "t3"}
	case "тест.example":
		return []string{"t1", "t2"}
	}
	return nil
}

func cleanAddr(a string) string {
	i := strings.LastIndex(a, "@")
	if i < 0 {
		return a
	}
	dom := strings.ToLower(a[i+1:])
	if u, err := idna.ToUnicode(dom); err == nil {
		dom = u
	}
	return a[:i+1] + dom
}

func node(name string, args ...string) config.Node { return config.Node{Name: name, Args: args} }
func block(name string, args []string, children ...config.Node) config.Node {
	return config.Node{Name: name, Args: args, Children: children}
}

func (w *world) build() error {
	s := w.s
	const st = "scen"
	w.lmtp = s.T.Choose(st, 3) == 0
	w.deferRj = s.T.Choose(st, 2) == 1
	w.limitN = []int{0, 1, 2}[s.T.Choose(st, 3)]
	w.family = 1 + s.T.Choose(st, 3)
	faultNum := []int{0, 2, 4, 8}[s.T.Choose(st, 4)]
	if w.a.Prop == "C16" {
		faultNum = 8
	}
	w.failEarly = map[string]bool{}
	w.tgts = map[string]*actors.ScriptedTarget{}
	w.plans = map[string][]*actors.StagePlan{}
	w.cplans = map[string][]*actors.CheckPlan{}
	w.cseen = map[string]int{}
	for _, n := range []string{"t1", "t2", "t3"} {
		n := n
		tprop := w.a.Prop
		if tprop == "C11" {
			tprop = "" // typestate findings belong to C03
		}
		t := &actors.ScriptedTarget{Label: n, Partial: s.T.Choose(st, 2) == 1, Prop: tprop}
		t.PlanFor = func(tx *actors.TxRecord) *actors.StagePlan {
			pl := w.plans[n]
			if tx.N-1 < len(pl) {
				return pl[tx.N-1]
			}
			return &actors.StagePlan{}
		}
		w.tgts[n] = t
		module.RegisterInstance(t, nil)
		delete(module.Initialized, n)
		for i := 0; i < 8; i++ {
			w.plans[n] = append(w.plans[n], genPlan(s.T, faultNum))
		}
	}
	nChecks := s.T.Choose(st, 3)
	var checkNodes []config.Node
	for i := 0; i < nChecks; i++ {
		n := fmt.Sprintf("chk%d", i+1)
		c := &actors.ScriptedCheck{Label: n}
		c.PlanFor = func(*module.MsgMetadata) *actors.CheckPlan {
			k := w.cseen[n]
			w.cseen[n]++
			if k < len(w.cplans[n]) {
				return w.cplans[n][k]
			}
			return &actors.CheckPlan{}
		}
		w.checks = append(w.checks, c)
		if i == 0 {
			module.RegisterInstance(earlyCheck{c, w}, nil)
		} else {
			module.RegisterInstance(c, nil)
		}
		delete(module.Initialized, n)
		checkNodes = append(checkNodes, node("&"+n))
		for j := 0; j < 8; j++ {
			w.cplans[n] = append(w.cplans[n], genCheckPlan(s.T, faultNum))
		}
	}
	var cfg []config.Node
	cfg = append(cfg, node("hostname", "mx.sim.example"), node("tls", "off"))
	if w.deferRj {
		cfg = append(cfg, node("defer_sender_reject", "yes"))
	} else {
		cfg = append(cfg, node("defer_sender_reject", "no"))
	}
	w.limScope = []string{"all", "source", "ip", "ip+source"}[s.T.Choose(st, 4)]
	if w.limitN > 0 {
		var ln []config.Node
		for _, sc := range strings.Split(w.limScope, "+") {
			ln = append(ln, node(sc, "concurrency", fmt.Sprint(w.limitN)))
		}
		cfg = append(cfg, block("limits", nil, ln...))
	}
	if len(checkNodes) > 0 {
		cfg = append(cfg, block("check", nil, checkNodes...))
	}
	if s.T.Choose(st, 3) == 0 {
		w.mod = &actors.ScriptedModifier{Label: "mod1"}
		w.mod.PlanFor = func(*module.MsgMetadata) *actors.ModPlan {
			k := w.mseen
			w.mseen++
			if k < len(w.mplans) {
				return w.mplans[k]
			}
			return &actors.ModPlan{}
		}
		module.RegisterInstance(w.mod, nil)
		delete(module.Initialized, "mod1")
		cfg = append(cfg, block("modify", nil, node("&mod1")))
		for j := 0; j < 8; j++ {
			mp := &actors.ModPlan{AddHeader: "yes"}
			if s.T.Bool("plan", faultNum, 32) {
				mp.StateErr = actors.Outcome(1 + s.T.Choose("plan", 3))
			}
			if s.T.Bool("plan", faultNum, 32) {
				mp.SenderErr = actors.Outcome(1 + s.T.Choose("plan", 3))
			}
			if s.T.Bool("plan", faultNum, 32) {
				mp.BodyErr = actors.Outcome(1 + s.T.Choose("plan", 3))
			}
			w.mplans = append(w.mplans, mp)
		}
	}
	cfg = append(cfg, node("max_received", "3"))
	// in a quarter of the runs message bodies longer than a few bytes are
	// buffered in a file (the endpoint's `buffer auto <size> <dir>` with a tiny
	// threshold, on the simulated disk): a connection that breaks inside the
	// body then breaks the stream while it is being spilled
	if s.T.Choose(st, 4) == 0 {
		fs := simfs.New()
		simfs.Use(fs)
		simfs.MkdirAll("/epbuf", 0o755)
		simfs.CanonName = func(b string) string {
			if b == "epbuf" || len(b) <= 2 {
				return b
			}
			return s.ID("file", b)
		}
		w.fileBuf = true
		cfg = append(cfg, node("buffer", "auto", "24b", "/epbuf"))
	}
	if w.family == 1 {
		cfg = append(cfg, node("deliver_to", "&t1"))
	} else if w.family == 3 {
		// source blocks: a rejected sender domain, a sender domain with a check
		// and modifiers of its own (source scope and recipient scope), everything
		// else through the default source; the destinations are those of family 2
		// in every block, so that the routing oracle does not depend on the sender
		w.xmods, w.xmplans, w.xmseen = map[string]*actors.ScriptedModifier{}, map[string][]*actors.ModPlan{}, map[string]int{}
		newMod := func(label string) config.Node {
			m := &actors.ScriptedModifier{Label: label}
			m.PlanFor = func(*module.MsgMetadata) *actors.ModPlan {
				k := w.xmseen[label]
				w.xmseen[label]++
				if k < len(w.xmplans[label]) {
					return w.xmplans[label][k]
				}
				return &actors.ModPlan{}
			}
			module.RegisterInstance(m, nil)
			delete(module.Initialized, label)
			w.xmods[label] = m
			for j := 0; j < 8; j++ {
				mp := &actors.ModPlan{AddHeader: label}
				if s.T.Bool("plan", faultNum, 48) {
					mp.StateErr = actors.Outcome(1 + s.T.Choose("plan", 3))
				}
				if s.T.Bool("plan", faultNum, 48) {
					mp.SenderErr = actors.Outcome(1 + s.T.Choose("plan", 3))
				}
				if s.T.Bool("plan", faultNum, 48) {
					mp.BodyErr = actors.Outcome(1 + s.T.Choose("plan", 3))
				}
				if s.T.Bool("plan", faultNum, 24) {
					r := rcptPool[s.T.Choose("plan", len(rcptPool))]
					o := actors.Outcome(1 + s.T.Choose("plan", 3))
					mp.RcptErr = map[string]actors.Outcome{r: o, cleanAddr(r): o}
				}
				w.xmplans[label] = append(w.xmplans[label], mp)
			}
			return block("modify", nil, node("&"+label))
		}
		dests := func(withRcptMod bool) []config.Node {
			a := []config.Node{node("deliver_to", "&t1")}
			b := []config.Node{node("deliver_to", "&t2"), node("deliver_to", "&t3")}
			if withRcptMod {
				a = append([]config.Node{newMod("modA")}, a...)
				b = append([]config.Node{newMod("modB")}, b...)
			}
			return []config.Node{
				block("destination", []string{"a.example"}, a...),
				block("destination", []string{"b.example"}, b...),
				block("destination", []string{"xn--e1aybc.example"}, node("deliver_to", "&t1"), node("deliver_to", "&t2")),
				block("default_destination", nil, node("reject", "550", "5.1.1", "no such recipient here")),
			}
		}
		var src []config.Node
		{
			n := "chkS"
			c := &actors.ScriptedCheck{Label: n}
			c.PlanFor = func(*module.MsgMetadata) *actors.CheckPlan {
				k := w.cseen[n]
				w.cseen[n]++
				if k < len(w.cplans[n]) {
					return w.cplans[n][k]
				}
				return &actors.CheckPlan{}
			}
			w.checks = append(w.checks, c)
			module.RegisterInstance(c, nil)
			delete(module.Initialized, n)
			for j := 0; j < 8; j++ {
				w.cplans[n] = append(w.cplans[n], genCheckPlan(s.T, faultNum))
			}
			src = append(src, block("check", nil, node("&"+n)))
		}
		if s.T.Choose(st, 2) == 0 {
			src = append(src, newMod("modS"))
		}
		src = append(src, dests(s.T.Choose(st, 2) == 0)...)
		cfg = append(cfg,
			block("source", []string{"blocked.example"}, node("reject", "521", "5.7.1", "senders of this domain are not welcome")),
			block("source", []string{"origin.example"}, src...),
			block("default_source", nil, dests(false)...),
		)
	} else {
		cfg = append(cfg,
			block("destination", []string{"a.example"}, node("deliver_to", "&t1")),
			block("destination", []string{"b.example"}, node("deliver_to", "&t2"), node("deliver_to", "&t3")),
			block("destination", []string{"xn--e1aybc.example"}, node("deliver_to", "&t1"), node("deliver_to", "&t2")),
			block("default_destination", nil, node("reject", "550", "5.1.1", "no such recipient here")),
		)
	}
	name := "smtp"
	if w.lmtp {
		name = "lmtp"
	}
	// a credentials provider: AUTH becomes one more command of the session; on
	// a submission endpoint MAIL is refused before it and the header is vetted
	// before the body reaches a target
	switch s.T.Choose(st, 4) {
	case 0:
		w.authMode = 1
	case 1:
		if !w.lmtp {
			w.authMode = 2
			name = "submission"
		}
	}
	if w.authMode > 0 {
		w.authp = &scriptedAuth{}
		module.RegisterInstance(w.authp, nil)
		delete(module.Initialized, "authp")
		cfg = append(cfg, node("auth", "&authp"), node("sasl_login", "yes"))
	}
	mod, err := smtpendp.New(name, nil)
	if err != nil {
		return err
	}
	w.endp = mod.(*smtpendp.Endpoint)
	w.endp.Log = log.Logger{Out: log.NopOutput{}, Name: name}
	w.endp.VerifSetResolver(&mockdns.Resolver{Zones: map[string]mockdns.Zone{}})
	if err := w.endp.Init(config.NewMap(nil, config.Node{Children: cfg})); err != nil {
		return err
	}
	w.endp.Log = log.Logger{Out: log.NopOutput{}, Name: name}
	return nil
}

func genOutcome(t *simrt.Tape, num int) actors.Outcome {
	if !t.Bool("plan", num, 16) {
		return actors.OK
	}
	return actors.Outcome(1 + t.Choose("plan", 3))
}

func genPlan(t *simrt.Tape, num int) *actors.StagePlan {
	p := &actors.StagePlan{Rcpt: map[string]actors.Outcome{}, Status: map[string]actors.Outcome{}}
	p.Var = t.Choose("plan", 60)
	p.Start = genOutcome(t, num/2)
	for _, r := range rcptPool {
		r = cleanAddr(r)
		p.Rcpt[r] = genOutcome(t, num/2)
		p.Status[r] = genOutcome(t, num)
	}
	p.Body = genOutcome(t, num)
	p.Commit = genOutcome(t, num)
	p.Abort = genOutcome(t, num/2)
	return p
}

func genVerdict(t *simrt.Tape, num int) actors.Verdict {
	if !t.Bool("plan", num, 24) {
		return actors.VNone
	}
	return actors.Verdict(1 + t.Choose("plan", 4))
}

func genCheckPlan(t *simrt.Tape, num int) *actors.CheckPlan {
	p := &actors.CheckPlan{Rcpt: map[string]actors.Verdict{}}
	if t.Bool("plan", num, 48) {
		p.StateErr = actors.Outcome(1 + t.Choose("plan", 3))
	}
	p.Conn = genVerdict(t, num/2)
	p.Sender = genVerdict(t, num/2)
	for _, r := range rcptPool {
		p.Rcpt[cleanAddr(r)] = genVerdict(t, num/2)
	}
	p.Body = genVerdict(t, num)
	return p
}

func (w *world) genClients() {
	s := w.s
	const st = "scen"
	nc := 1 + s.T.Choose(st, 2)
	// (go-smtp runs LMTPData in a goroutine of its own; the overlay names it
	// after the connection, so LMTP runs can have two clients as well)
	for i := 0; i < nc; i++ {
		c := &client{name: fmt.Sprintf("cl%d", i+1), ip: fmt.Sprintf("198.51.100.%d:4%d000", 1+i, i)}
		ntx := 1 + s.T.Choose(st, 3)
		if w.authMode > 0 {
			c.AuthFirst = s.T.Choose(st, 4) != 0
			c.AuthKind = authGood
			if s.T.Choose(st, 4) == 0 {
				c.AuthKind = s.T.Choose(st, nAuthKinds)
			}
		}
		for j := 0; j < ntx; j++ {
			tx := &cTx{Marker: fmt.Sprintf("%s-%d", c.name, j+1)}
			tx.UTF8 = s.T.Choose(st, 3) == 0
			tx.From = fromPool[s.T.Choose(st, len(fromPool))]
			if s.T.Choose(st, 3) != 0 {
				tx.From = fromPool[0]
			}
			nr := 1 + s.T.Choose(st, 4)
			// distinct recipients (duplicates belong to C09's quantifier)
			for k := 0; k < nr; k++ {
				r := rcptPool[s.T.Choose(st, len(rcptPool))]
				if !contains(tx.Rcpts, r) {
					tx.Rcpts = append(tx.Rcpts, r)
				}
			}
			tx.Ending = endData
			if s.T.Choose(st, 3) == 0 {
				tx.Ending = s.T.Choose(st, nEndings)
			}
			tx.CutInBody = s.T.Choose(st, 2) == 1
			tx.NoReset = s.T.Choose(st, 3) == 0
			tx.EhloFails = s.T.Choose(st, 2) == 0
			if s.T.Choose(st, 4) == 0 {
				tx.StrayAt = s.T.Choose(st, 3)
				strays := []string{"VRFY someone", "HELP", "STARTTLS", "XFOO bar", "RCPT TO:<u1@a.example", "MAIL FROM:<second@origin.example", "EXPN list"}
				if tx.StrayAt == 0 {
					strays = append(strays, "DATA", "RCPT TO:<u1@a.example>", "MAIL FROM:<big@origin.example> SIZE=99999999999")
				}
				tx.Stray = strays[s.T.Choose(st, len(strays))]
			}
			tx.Pause = s.T.Choose(st, 6) == 0
			if s.T.Choose(st, 3) == 0 {
				tx.Chunks = 1 + s.T.Choose(st, 3)
				tx.BdatEnd = []int{bdatComplete, bdatComplete, bdatComplete, bdatZeroLast, bdatDataMid, bdatRset, bdatDisconnect, bdatQuit}[s.T.Choose(st, 8)]
			}
			if w.authMode > 0 && s.T.Choose(st, 3) == 0 {
				tx.AuthAt = 1 + s.T.Choose(st, 3)
				tx.AuthKind = s.T.Choose(st, nAuthKinds)
			}
			body := "Subject: sim " + tx.Marker + "\r\nX-Sim-Tx: " + tx.Marker + "\r\n"
			if w.authMode == 2 && s.T.Choose(st, 4) != 0 {
				// (a submission endpoint refuses a message without From)
				body = "From: <sender@origin.example>\r\n" + body
			}
			if s.T.Choose(st, 8) == 0 {
				body += "TLS-Required: No\r\n"
			}
			if s.T.Choose(st, 12) == 0 {
				// more Received fields than max_received: refused as a forwarding
				// loop after the body was read - one more failure before the commit step
				for k := 0; k < 4; k++ {
					body = fmt.Sprintf("Received: from hop%d.example by hop%d.example; Sat, 1 Jan 2000 00:00:0%d +0000\r\n", k, k+1, k) + body
				}
			}
			body += "\r\nbody of " + tx.Marker + "\r\n.dot line\r\n"
			tx.Payload = []byte(body)
			c.txs = append(c.txs, tx)
		}
		w.clients = append(w.clients, c)
	}
}

func (w *world) runClient(c *client) {
	s := w.s
	defer func() { c.done = true }()
	conn, err := w.net.Dial(context.Background(), c.ip, listenAddr)
	if err != nil {
		if w.shutDown {
			// the server was shut down before this client connected
			return
		}
		simrt.Harnessf("dial: %v", err)
	}
	defer conn.Close()
	cl := actors.NewSMTPClient(c.name, conn)
	if g := cl.ReadReply(); !g.Positive() {
		// the endpoint may refuse the connection (early check); nothing else to do
		conn.Close()
		return
	}
	hello := "EHLO client.example"
	if w.lmtp {
		hello = "LHLO client.example"
	}
	c.helo = cl.Cmd(hello)
	if c.AuthFirst {
		c.AuthReply = w.doAuth(cl, c.name, c.AuthKind)
		if c.AuthReply.Err != "" {
			return
		}
	}
	stale := 0 // recipients of transactions abandoned by a repeated LHLO
	openTx := false // the server still has the previous transaction open
	for _, tx := range c.txs {
		wasOpen := openTx
		openTx = false
		nestedOpened := false
		stray := func(at int) bool {
			if tx.Stray == "" || tx.StrayAt != at {
				return true
			}
			if at == 0 && wasOpen {
				// the previous transaction was left open (next MAIL without
				// RSET): a command sent now is not "outside a transaction" -
				// a RCPT would join that transaction (false alarm of the
				// thorough tier: its LMTP reply looked foreign)
				return true
			}
			s.Stat("client_stray_command")
			tx.StrayReply = cl.Cmd(tx.Stray)
			if tx.StrayReply.Err != "" {
				return false
			}
			if at == 0 && tx.StrayReply.OK() && strings.HasPrefix(tx.Stray, "MAIL") {
				// (the oversized announcement was not refused: start over)
				cl.Cmd("RSET")
			}
			return true
		}
		if !stray(0) {
			return
		}
		if tx.AuthAt == 1 {
			if tx.AuthReply = w.doAuth(cl, c.name, tx.AuthKind); tx.AuthReply.Err != "" {
				return
			}
		}
		mail := "MAIL FROM:<" + tx.From + ">"
		if tx.UTF8 {
			mail += " SMTPUTF8"
		}
		tx.MailReply = cl.Cmd(mail)
		if tx.MailReply.Err != "" {
			return
		}
		if !stray(1) {
			return
		}
		if tx.AuthAt == 2 {
			// (RFC 4954 forbids AUTH inside a transaction; go-smtp runs it)
			if tx.AuthReply = w.doAuth(cl, c.name, tx.AuthKind); tx.AuthReply.Err != "" {
				return
			}
		}
		for _, r := range tx.Rcpts {
			rr := cl.Cmd("RCPT TO:<" + r + ">")
			tx.RcptReplies = append(tx.RcptReplies, rr)
			if rr.Err != "" {
				return
			}
		}
		if !stray(2) {
			return
		}
		if tx.AuthAt == 3 {
			if tx.AuthReply = w.doAuth(cl, c.name, tx.AuthKind); tx.AuthReply.Err != "" {
				return
			}
		}
		switch tx.Ending {
		case endRset:
			cl.Cmd("RSET")
			stale = 0
			tx.Done = true
			continue
		case endDisconnect:
			s.Stat("client_disconnect")
			conn.Close()
			return
		case endQuit:
			cl.Cmd("QUIT")
			conn.Close()
			return
		case endNoopThenData:
			cl.Cmd("NOOP")
		case endNestedMailThenData:
			// (accepted when this transaction's own MAIL had been refused: it
			// then opens a transaction of its own)
			nestedOpened = cl.Cmd("MAIL FROM:<other@origin.example>").OK()
		case endEhloMidTx:
			// a second EHLO/LHLO resets the protocol state (RFC 5321 4.1.4)
			s.Stat("client_ehlo_mid_transaction")
			if tx.EhloFails && len(w.checks) > 0 {
				w.failEarly[c.ip] = true
			}
			if hr := cl.Cmd(hello); hr.Err == "" && !hr.Positive() {
				// the greeting was refused (early check): the server keeps the
				// old session. A client that goes on regardless, and leaves
				s.Stat("client_ehlo_refused_mid_transaction")
				if len(tx.Rcpts) > 0 {
					cl.Cmd("RCPT TO:<" + tx.Rcpts[0] + ">")
				}
				cl.Cmd("QUIT")
				conn.Close()
				return
			}
			delete(w.failEarly, c.ip)
			if w.lmtp {
				for _, rr := range tx.RcptReplies {
					if rr.OK() {
						stale++
					}
				}
			}
			tx.Done = true
			continue
		}
		anyRcpt := false
		for _, rr := range tx.RcptReplies {
			if rr.OK() {
				anyRcpt = true
			}
		}
		if !anyRcpt && tx.NoReset {
			// nothing was accepted: some clients simply start over
			s.Stat("client_next_mail_without_reset")
			tx.Done = true
			openTx = wasOpen || tx.MailReply.OK() || nestedOpened
			continue
		}
		if tx.Pause {
			s.Stat("client_pause_mid_transaction")
			simrt.Sleep(6 * time.Second)
			simrt.Yield("client:paused")
		}
		// (without an accepted recipient go-smtp refuses BDAT before reading the
		// chunk, which a pipelining client cannot recover from: use DATA there)
		if tx.Chunks > 0 && anyRcpt {
			// CHUNKING: the server feeds the chunks to the session through a
			// pipe from a goroutine of its own
			s.Stat("client_bdat")
			parts := splitChunks(tx.Payload, tx.Chunks)
			interrupted := tx.BdatEnd == bdatRset || tx.BdatEnd == bdatDisconnect || tx.BdatEnd == bdatQuit
			unmarked := len(parts) - 1
			switch {
			case tx.BdatEnd == bdatZeroLast:
				unmarked = len(parts)
			case interrupted && unmarked == 0:
				unmarked = 1
			}
			early := false
			for i := 0; i < unmarked; i++ {
				s.Logf("%s > BDAT %d (chunk %d of %s)", c.name, len(parts[i]), i+1, tx.Marker)
				if err := cl.Send(append([]byte(fmt.Sprintf("BDAT %d\r\n", len(parts[i]))), parts[i]...)); err != nil {
					return
				}
				rr := cl.ReadReply()
				tx.ChunkReplies = append(tx.ChunkReplies, rr)
				if rr.Err != "" {
					return
				}
				if rr.Code != 250 {
					early = true
					break
				}
				if tx.BdatEnd == bdatDataMid && i == 0 {
					cl.Cmd("DATA")
				}
			}
			if early {
				// the server gave up on the transaction and reset it
				tx.Done = true
				stale = 0
				continue
			}
			switch tx.BdatEnd {
			case bdatRset:
				s.Stat("client_bdat_rset")
				cl.Cmd("RSET")
				stale = 0
				tx.Done = true
				continue
			case bdatDisconnect:
				s.Stat("client_bdat_disconnect")
				conn.Close()
				return
			case bdatQuit:
				s.Stat("client_bdat_quit")
				cl.Cmd("QUIT")
				conn.Close()
				return
			}
			var last []byte
			if unmarked < len(parts) {
				last = parts[len(parts)-1]
			}
			s.Logf("%s > BDAT %d LAST (%s)", c.name, len(last), tx.Marker)
			if err := cl.Send(append([]byte(fmt.Sprintf("BDAT %d LAST\r\n", len(last))), last...)); err != nil {
				return
			}
		} else {
			tx.DataReply = cl.Cmd("DATA")
			if tx.DataReply.Err != "" {
				return
			}
			if tx.DataReply.Code != 354 {
				tx.Done = true
				// the transaction stays open on the server; reset it
				cl.Cmd("RSET")
				stale = 0
				continue
			}
			if tx.Ending == endDisconnectMidData {
				// the connection breaks inside the header or inside the body
				cut := len(tx.Payload) / 2
				if tx.CutInBody {
					cut = len(tx.Payload) - 5
				}
				cl.Send(tx.Payload[:cut])
				s.Stat("client_disconnect_mid_data")
				conn.Close()
				return
			}
			s.Logf("%s > (message %s, %d bytes)", c.name, tx.Marker, len(tx.Payload))
			if err := cl.Send(actors.DotStuff(tx.Payload)); err != nil {
				return
			}
		}
		tx.SentBody = true
		n := 1
		if w.lmtp {
			n = 0
			for _, rr := range tx.RcptReplies {
				if rr.OK() {
					n++
				}
			}
		}
		if !w.lmtp {
			fr := cl.ReadReply()
			tx.Final = append(tx.Final, fr)
			if fr.Err != "" {
				return
			}
		} else {
			// LMTP: one reply per recipient, each naming its recipient as
			// "<addr> text". Replies are matched by address; a reply naming an
			// address this transaction never sent is recorded separately.
			var accepted []string
			for i, rr := range tx.RcptReplies {
				if rr.OK() {
					accepted = append(accepted, tx.Rcpts[i])
				}
			}
			got := map[string]actors.Reply{}
			var wholeFail *actors.Reply
			// go-smtp answers once per entry of its recipient list, which
			// still contains the recipients of a transaction abandoned by a
			// repeated LHLO (see known findings); read that many replies so
			// that the client stays in step with the server
			for k := 0; k < len(accepted)+stale; k++ {
				fr := cl.ReadReply()
				if fr.Err != "" {
					tx.Final = append(tx.Final, fr)
					return
				}
				addr := ""
				if len(fr.Lines) > 0 {
					t := fr.Lines[0]
					if i := strings.Index(t, "<"); i >= 0 {
						if j := strings.Index(t[i:], ">"); j > 0 {
							addr = t[i+1 : i+j]
						}
					}
				}
				if _, dup := got[addr]; contains(accepted, addr) && !dup && k >= stale {
					got[addr] = fr
					continue
				}
				if addr == "" && !fr.OK() {
					// a failure reply that names no recipient is go-smtp's answer
					// for the transfer as a whole (e.g. the BDAT pipe closed by a
					// server shutdown), not a per-recipient status: one reply,
					// nothing else follows (false alarm of the thorough tier)
					wholeFail = &fr
					break
				}
				tx.Foreign = append(tx.Foreign, fr)
			}
			stale = 0
			if wholeFail != nil {
				tx.Final = append(tx.Final, *wholeFail)
			} else {
				for _, r := range accepted {
					tx.Final = append(tx.Final, got[r])
				}
			}
			_ = n
		}
		tx.Done = true
	}
	cl.Cmd("QUIT")
	conn.Close()
}

// doAuth performs one AUTH exchange and returns its last reply.
func (w *world) doAuth(cl *actors.SMTPClient, name string, kind int) actors.Reply {
	w.s.Stat("client_auth")
	b64 := func(s string) string { return base64.StdEncoding.EncodeToString([]byte(s)) }
	switch kind {
	case authGood:
		return cl.Cmd("AUTH PLAIN " + b64("\x00"+name+"\x00good"))
	case authBad:
		return cl.Cmd("AUTH PLAIN " + b64("\x00"+name+"\x00bad"))
	case authTemp:
		return cl.Cmd("AUTH PLAIN " + b64("\x00"+name+"\x00temp"))
	case authGarbage:
		return cl.Cmd("AUTH PLAIN ***")
	case authCancel:
		r := cl.Cmd("AUTH LOGIN")
		if r.Code == 334 {
			r = cl.Cmd("*")
		}
		return r
	default:
		r := cl.Cmd("AUTH LOGIN")
		if r.Code == 334 {
			r = cl.Cmd(b64(name))
		}
		if r.Code == 334 {
			r = cl.Cmd(b64("good"))
		}
		return r
	}
}

// Run is the world function for C03 (and the endpoint parts of C11/C16).
func Run(s *simrt.Sim, a *harness.Args, r *harness.Result) {
	log.DefaultLogger.Out = log.NopOutput{}
	defer func() { simfs.CanonName = nil }()
	w := &world{s: s, a: a, net: simnet.New()}
	s.MaxSteps = 60000
	s.PreemptBudget = []int{0, 1, 2, -1}[s.T.Choose("knob", 4)]
	s.PreemptNum, s.PreemptDen = 1, 4
	var berr error
	built := false
	s.Spawn("boot", nil, func() {
		berr = w.build()
		built = true
	})
	s.Run(time.Second, func() bool { return built })
	if !built || berr != nil {
		simrt.Harnessf("endpoint init failed: %v", berr)
	}
	w.genClients()
	l := w.net.Listen(listenAddr)
	s.Spawn("serve", nil, func() { w.endp.VerifServe(l) })
	for _, c := range w.clients {
		c := c
		s.Spawn(c.name, nil, func() { w.runClient(c) })
	}
	allDone := func() bool {
		for _, c := range w.clients {
			if !c.done {
				return false
			}
		}
		return true
	}
	// in one run of six the server is shut down (Endpoint.Close) at a drawn
	// scheduling step, in the middle of whatever the sessions are doing: go-smtp
	// then closes every connection - and logs every session out - from the
	// goroutine that called Close, not from the connection's own
	shutAt := -1
	if a.Prop != "C16" && s.T.Choose("scen", 6) == 0 {
		shutAt = s.Steps() + s.T.Choose("scen", 260)
	}
	earlyShut := false
	res := s.Run(time.Hour, func() bool {
		if shutAt >= 0 && !earlyShut && s.Steps() >= shutAt {
			earlyShut = true
			s.Stat("fault_server_shutdown_mid_session")
			s.Spawn("earlyshut", nil, func() {
				s.Logf("server shutdown")
				w.shutDown = true
				l.Close()
				w.endp.VerifCloseServer()
			})
		}
		return allDone()
	})
	if !allDone() && len(s.Violations()) == 0 {
		simrt.Harnessf("clients did not finish (%v); parked=%v", res, s.ParkedKeys())
	}
	// let the server notice the closed connections and log out
	s.Run(time.Second, nil)
	closed := false
	s.Spawn("shutdown", nil, func() {
		l.Close()
		w.endp.VerifCloseServer()
		closed = true
	})
	s.Run(time.Minute, func() bool { return closed })

	for _, p := range s.Panics() {
		if p.Func != "HARNESS" {
			s.Violate(a.Prop+"/panic/"+p.Func, "task %s panicked: %s", p.Task, p.Value)
		}
	}
	if a.Prop == "C16" {
		if len(s.Violations()) == 0 {
			w.oracleC16()
		}
	} else if a.Prop == "C11" {
		// the endpoint part of C11: only the permits are judged here
		if len(s.Violations()) == 0 && w.limitN > 0 {
			w.oracleLimits()
		}
	} else {
		if len(s.Violations()) == 0 {
			w.oracleC03()
		}
		if len(s.Violations()) == 0 && w.limitN > 0 {
			w.oracleLimits()
		}
	}
	st := s.Stats()
	nf := 0
	for k, v := range st {
		if strings.HasPrefix(k, "fault_") || strings.HasPrefix(k, "client_") {
			nf += v
		}
	}
	r.Shape = w.shape()
	r.Nontrivial = nf > 0 || s.Preempts() > 0
	r.Sample = w.sample()
}

func (w *world) shape() string {
	var sb strings.Builder
	fmt.Fprintf(&sb, "lmtp=%v defer=%v lim=%d fam=%d chk=%d mod=%v auth=%d fbuf=%v|", w.lmtp, w.deferRj, w.limitN, w.family, len(w.checks), w.mod != nil, w.authMode, w.fileBuf)
	for _, c := range w.clients {
		if c.AuthFirst {
			fmt.Fprintf(&sb, "[%s auth=%d]", c.name, c.AuthKind)
		}
		for _, tx := range c.txs {
			fmt.Fprintf(&sb, "[%s f=%q u=%v r=%d e=%d b=%d/%d a=%d/%d]", c.name, tx.From, tx.UTF8, len(tx.Rcpts), tx.Ending, tx.Chunks, tx.BdatEnd, tx.AuthAt, tx.AuthKind)
		}
	}
	return sb.String()
}

func (w *world) sample() interface{} {
	var cl []string
	for _, c := range w.clients {
		for _, tx := range c.txs {
			var fin []string
			for _, f := range tx.Final {
				fin = append(fin, fmt.Sprint(f.Code))
			}
			var rc []string
			for i, rr := range tx.RcptReplies {
				rc = append(rc, fmt.Sprintf("%s=%d", tx.Rcpts[i], rr.Code))
			}
			cl = append(cl, fmt.Sprintf("%s MAIL<%s>=%d RCPT[%s] ending=%d final=%v", tx.Marker, tx.From, tx.MailReply.Code, strings.Join(rc, ","), tx.Ending, fin))
		}
	}
	var tg []string
	for _, n := range []string{"t1", "t2", "t3"} {
		if w.tgts[n] == nil {
			continue
		}
		for _, tx := range w.tgts[n].Records() {
			tg = append(tg, fmt.Sprintf("%s tx%d start=%v rcpts=%v body=%v commit=%d/%v abort=%d closed=%v", n, tx.N, tx.StartRes, tx.Rcpts, tx.BodyCall, tx.Commits, tx.CommitRes, tx.Aborts, tx.Closed))
		}
	}
	return map[string]interface{}{"scenario": w.shape(), "client_transactions": cl, "target_transactions": tg}
}

func marker(tx *actors.TxRecord) string {
	for _, ln := range strings.Split(string(tx.Header), "\r\n") {
		if strings.HasPrefix(ln, "X-Sim-Tx: ") {
			return strings.TrimPrefix(ln, "X-Sim-Tx: ")
		}
	}
	return ""
}

func failStage(tx *actors.TxRecord) string {
	switch {
	case tx.Commits > 0 && tx.CommitRes != actors.OK:
		return "commit"
	case tx.BodyCall && tx.BodyRes != actors.OK:
		return "body"
	case tx.BodyCall:
		return "after-body"
	}
	for _, r := range tx.Rcpts {
		if tx.RcptRes[r] != actors.OK {
			return "rcpt"
		}
	}
	return "before-body"
}

func (w *world) oracleC03() {
	s := w.s
	names := []string{"t1", "t2", "t3"}
	byMarker := map[string]map[string][]*actors.TxRecord{}
	for _, n := range names {
		for _, tx := range w.tgts[n].Records() {
			if tx.Started && !tx.Closed {
				s.Violate("C03/not-closed/"+failStage(tx), "delivery tx%d on target %s (rcpts %v) was neither committed nor aborted by the end of the session (body=%v/%v commits=%d aborts=%d)", tx.N, n, tx.Rcpts, tx.BodyCall, tx.BodyRes, tx.Commits, tx.Aborts)
			}
			if tx.Commits > 0 && !tx.BodyCall {
				s.Violate("C03/commit-without-body", "delivery tx%d on target %s committed without a body", tx.N, n)
			}
			if m := marker(tx); m != "" {
				if byMarker[m] == nil {
					byMarker[m] = map[string][]*actors.TxRecord{}
				}
				byMarker[m][n] = append(byMarker[m][n], tx)
			}
		}
	}
	for _, c := range w.clients {
		for _, tx := range c.txs {
			if len(tx.Foreign) > 0 {
				sig := "other"
				for _, o := range c.txs {
					if o.Ending == endEhloMidTx {
						sig = "greeting-mid-transaction"
					}
				}
				s.Violate("C03/lmtp-reply-for-foreign-recipient/"+sig, "transaction %s got %d LMTP replies for recipients it never named, first: %s", tx.Marker, len(tx.Foreign), tx.Foreign[0].String())
				// replies can no longer be attributed to this transaction's
				// recipients with certainty
				continue
			}
			if !tx.SentBody {
				// the client gave the transaction up before the end of the body
				for tn, l := range byMarker[tx.Marker] {
					for _, t := range l {
						if t.Commits > 0 {
							s.Violate("C03/commit-of-abandoned", "transaction %s was abandoned by the client before the end of its body (ending %d/%d), yet delivery tx%d on target %s was committed", tx.Marker, tx.Ending, tx.BdatEnd, t.N, tn)
						}
					}
				}
			}
			if !tx.SentBody || len(tx.Final) == 0 {
				// never answered: nothing may have been committed unless the
				// reply was simply not awaited (disconnect after the final dot
				// is not generated)
				continue
			}
			mtx := byMarker[tx.Marker]
			anyCommit, commitFailed := false, false
			for _, l := range mtx {
				for _, t := range l {
					if t.Commits > 0 {
						anyCommit = true
						if t.CommitRes != actors.OK {
							commitFailed = true
						}
					}
				}
			}
			committedOK := func(tn, rcpt string) (bool, string) {
				for _, t := range mtx[tn] {
					if t.RcptRes[rcpt] == actors.OK && contains(t.Rcpts, rcpt) && t.Commits == 1 && t.CommitRes == actors.OK {
						if t.Partial && w.lmtp && t.Statuses[rcpt] != actors.OK {
							return false, fmt.Sprintf("target %s reported %v for %s", tn, t.Statuses[rcpt], rcpt)
						}
						if !t.Partial && t.BodyRes != actors.OK {
							return false, fmt.Sprintf("target %s failed the body", tn)
						}
						return true, ""
					}
				}
				return false, fmt.Sprintf("no committed delivery on target %s contains %s", tn, rcpt)
			}
			if !w.lmtp {
				fin := tx.Final[0]
				if fin.OK() {
					for i, r := range tx.Rcpts {
						if i >= len(tx.RcptReplies) || !tx.RcptReplies[i].OK() {
							continue
						}
						for _, tn := range w.route(r) {
							if ok, why := committedOK(tn, cleanAddr(r)); !ok {
								s.Violate("C03/success-without-commit", "transaction %s was answered %d but %s (recipient %s accepted with 250)", tx.Marker, fin.Code, why, r)
							}
						}
					}
				} else if fin.Err == "" && anyCommit && !commitFailed {
					s.Violate("C03/commit-after-failure-reply", "transaction %s was answered %s although a target committed it and no commit failed", tx.Marker, fin.String())
				}
			} else {
				k := 0
				for i, r := range tx.Rcpts {
					if i >= len(tx.RcptReplies) || !tx.RcptReplies[i].OK() {
						continue
					}
					if k >= len(tx.Final) {
						break
					}
					fr := tx.Final[k]
					k++
					if fr.OK() {
						// signature: does the transaction contain a recipient that
						// is routed to two or more targets which report
						// per-recipient statuses (root cause of one known finding)
						sig := "single-target"
						if len(w.route(r)) > 1 {
							sig = "multi-target"
						}
						for j, r2 := range tx.Rcpts {
							if j >= len(tx.RcptReplies) || !tx.RcptReplies[j].OK() {
								continue
							}
							np := 0
							for _, tn := range w.route(r2) {
								if w.tgts[tn].Partial {
									np++
								}
							}
							if np >= 2 {
								sig = "tx-has-rcpt-on-2-per-recipient-targets"
							}
						}
						for _, tn := range w.route(r) {
							if ok, why := committedOK(tn, cleanAddr(r)); !ok {
								s.Violate("C03/lmtp-status-mismatch/"+sig, "transaction %s: recipient %s was answered %d but %s", tx.Marker, r, fr.Code, why)
							}
						}
					}
				}
			}
		}
	}
}

// splitChunks cuts b into n non-empty pieces (fewer if b is short); the first
// cut falls inside the header so that header parsing spans chunks.
func splitChunks(b []byte, n int) [][]byte {
	var out [][]byte
	for n > 1 && len(b) > 1 {
		k := len(b) / n
		if len(out) == 0 && k > 10 {
			k = 10
		}
		if k == 0 {
			k = 1
		}
		out = append(out, b[:k])
		b = b[k:]
		n--
	}
	return append(out, b)
}

func contains(xs []string, x string) bool {
	for _, y := range xs {
		if y == x {
			return true
		}
	}
	return false
}

// oracleC16: every reply the clients read is coherent.
func (w *world) oracleC16() {
	s := w.s
	check := func(stage string, utf8 bool, r actors.Reply) {
		if strings.HasPrefix(r.Err, "malformed reply line") || strings.HasPrefix(r.Err, "short reply line") {
			// a physical line of the reply carries no code at all (e.g. an
			// error text with a line break passed through unescaped)
			s.Violate("C16/malformed-reply/"+stage, "%s reply cannot be parsed: %s (lines so far: %q)", stage, r.Err, r.Lines)
			return
		}
		if r.Err != "" || r.Code < 400 {
			return
		}
		text := strings.Join(r.Lines, "\n")
		if r.Enh == "" {
			s.Violate("C16/class-mismatch/"+stage+"/no-enhanced-code", "%s reply without enhanced status code: %s", stage, r.String())
		} else if r.Enh[0] != byte('0'+r.Code/100) {
			s.Violate("C16/class-mismatch/"+stage, "%s reply with basic code %d and enhanced code %s: %s", stage, r.Code, r.Enh, r.String())
		}
		if strings.Contains(text, actors.SecretMarker) {
			s.Violate("C16/detail-disclosed/"+stage, "%s reply discloses the text of an internal error: %s", stage, r.String())
		}
		if strings.Contains(text, "tempfail") && r.Code/100 != 4 {
			s.Violate("C16/retry-class-mismatch/"+stage, "a temporary failure was answered %d: %s", r.Code, r.String())
		}
		if strings.Contains(text, "permfail") && r.Code/100 != 5 {
			s.Violate("C16/retry-class-mismatch/"+stage, "a permanent failure was answered %d: %s", r.Code, r.String())
		}
		if !utf8 {
			for _, ch := range text {
				if ch >= 0x80 {
					s.Violate("C16/non-ascii-reply/"+stage, "reply to a client that did not ask for SMTPUTF8 contains U+%04X: %q", ch, text)
					break
				}
			}
		}
	}
	// AUTH: credentials the provider does not know are a permanent failure
	// (RFC 4954: 535), a provider that cannot answer is a temporary one (454)
	checkAuth := func(kind int, r actors.Reply) {
		check("AUTH", false, r)
		if r.Err != "" || r.Code == 0 {
			return
		}
		switch {
		case kind == authBad && r.Code/100 == 4:
			s.Violate("C16/retry-class-mismatch/AUTH/rejected-credentials", "credentials the provider rejected (a permanent failure) were answered %s", r.String())
		case kind == authTemp && r.Code == 535:
			s.Violate("C16/retry-class-mismatch/AUTH/provider-failure", "a temporary failure of the credentials provider was answered %s", r.String())
		}
	}
	for _, c := range w.clients {
		desynced := false
		checkAuth(c.AuthKind, c.AuthReply)
		for _, tx := range c.txs {
			if !desynced {
				checkAuth(tx.AuthKind, tx.AuthReply)
				check("OTHER", false, tx.StrayReply)
			}
			if desynced {
				// LMTP after a repeated LHLO mid-transaction: go-smtp still
				// answers for (and names) the abandoned transaction's
				// recipients - the known finding recorded under C03. Replies
				// can no longer be attributed to this transaction's commands.
				continue
			}
			if w.lmtp && tx.Ending == endEhloMidTx {
				desynced = true
			}
			check("MAIL", tx.UTF8, tx.MailReply)
			if !tx.MailReply.OK() {
				// the commands that follow a refused MAIL land in whatever
				// transaction the server still has open (or in none): their
				// replies are not formatted for this transaction's options
				continue
			}
			for _, rr := range tx.RcptReplies {
				check("RCPT", tx.UTF8, rr)
			}
			check("DATA", tx.UTF8, tx.DataReply)
			for _, f := range tx.ChunkReplies {
				check("DATA", tx.UTF8, f)
			}
			for _, f := range tx.Final {
				check("DATA", tx.UTF8, f)
			}
			for _, f := range tx.Foreign {
				check("DATA", tx.UTF8, f)
			}
		}
	}
}

// oracleLimits: after all sessions ended every permit of the endpoint's
// limit is free again, for every source domain and client address that was
// used (keys as the limiter sees them: normalized domain, IP).
func (w *world) oracleLimits() {
	s := w.s
	s.TimeNum = 0
	type probe struct {
		ip  net.IP
		dom string
	}
	var probes []probe
	seen := map[string]bool{}
	for _, c := range w.clients {
		host, _, _ := net.SplitHostPort(c.ip)
		for _, tx := range c.txs {
			dom := ""
			if i := strings.LastIndex(tx.From, "@"); i >= 0 {
				dom = cleanAddr(tx.From)[i+1:]
			}
			k := host + "|" + dom
			if !seen[k] {
				seen[k] = true
				probes = append(probes, probe{net.ParseIP(host), dom})
			}
		}
	}
	done := false
	var bad string
	s.Spawn("limprobe", nil, func() {
		g := w.endp.VerifLimits()
		for _, p := range probes {
			got := 0
			for i := 0; i < w.limitN; i++ {
				if err := g.TakeMsg(context.Background(), p.ip, p.dom); err != nil {
					break
				}
				got++
			}
			for i := 0; i < got; i++ {
				g.ReleaseMsg(p.ip, p.dom)
			}
			if got < w.limitN && bad == "" {
				bad = fmt.Sprintf("only %d of %d permits could be taken for client %s / sender domain %q", got, w.limitN, p.ip, p.dom)
			}
		}
		done = true
	})
	s.Run(5*time.Minute, func() bool { return done })
	if done && bad != "" {
		key := "C03/permit-leak/" + w.limScope
		if w.a.Prop == "C11" {
			key = "C11/permit-leak/endpoint/" + w.limScope
		}
		s.Violate(key, "after all sessions ended %s", bad)
	}
}

var _ = bytes.Contains
var _ = sort.Strings
