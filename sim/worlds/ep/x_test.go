package ep

import (
	"testing"

	"github.com/foxcpp/maddy/internal/verifsim/harness"
)

func TestSim(t *testing.T) {
	harness.Main(t, map[string]harness.WorldFunc{"ep": Run, "ep06": RunC06, "ep09": RunC09P})
}
