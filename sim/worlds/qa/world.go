package qa

import (
	"context"
	"fmt"
	"math"
	"sort"
	"strings"
	"time"

	"github.com/emersion/go-message/textproto"
	"github.com/emersion/go-smtp"
	"github.com/foxcpp/maddy/framework/buffer"
	"github.com/foxcpp/maddy/framework/config"
	"github.com/foxcpp/maddy/framework/log"
	"github.com/foxcpp/maddy/framework/module"
	"github.com/foxcpp/maddy/internal/msgpipeline"
	"github.com/foxcpp/maddy/internal/target/queue"
	"github.com/foxcpp/maddy/internal/verifsim/actors"
	"github.com/foxcpp/maddy/internal/verifsim/harness"
	"github.com/foxcpp/maddy/internal/verifsim/simfs"
	"github.com/foxcpp/maddy/internal/verifsim/simrt"
)

const spool = "/spool"
const spool2 = "/spool2"

const passwordMarker = "S3CR3T-PASSW0RD-MARKER"

// World is the state of one queue-world run.
type World struct {
	s    *simrt.Sim
	a    *harness.Args
	prop string
	hang string // C01: the run did not quiesce (judged by settleHang)
	sc   *Scenario
	fs   *simfs.FS
	tgt  *actors.ScriptedTarget
	sink *actors.ScriptedTarget
	// report chain (C18): second queue, its failing target, its bounce sink
	q2       *queue.Queue
	chainTgt *actors.ScriptedTarget
	sink2    *actors.ScriptedTarget

	inc       *simrt.Inc
	incN      int
	q         *queue.Queue
	qErr      error
	booted    bool
	crashed   bool
	crashes   int
	crashOps  []string
	closeDone map[int]bool
	prodDone  int
	prodTotal int
	credLeak  string

	closeRequested bool
	closeReturned  bool
	// closeStep[incarnation]: controller step at which Queue.Close returned
	closeStep map[int]int

	// downOverride replaces the scripted downstream (world Q-B)
	downOverride module.DeliveryTarget
	viaPipe      bool // C01: a message pipeline sits between the queue and the scripted downstream
}

func (w *World) msgByID(id string) *Msg {
	base := actors.BaseID(id)
	for _, m := range w.sc.Msgs {
		if m.ID == base {
			return m
		}
	}
	return nil
}

func (w *World) planFor(tx *actors.TxRecord) *actors.StagePlan {
	m := w.msgByID(tx.MsgID)
	if m == nil {
		return &actors.StagePlan{}
	}
	n := 0
	for _, o := range w.tgt.Txs {
		if o != tx && actors.BaseID(o.MsgID) == m.ID {
			n++
		}
	}
	if n < len(m.Plans) {
		return m.Plans[n]
	}
	return &actors.StagePlan{}
}

func (w *World) sinkPlanFor(tx *actors.TxRecord) *actors.StagePlan {
	n := len(w.sink.Txs) - 1
	if n >= 0 && n < len(w.sc.BouncePlans) {
		p := w.sc.BouncePlans[n]
		if w.prop == "C18" && p.Rcpt != nil {
			// let the single recipient of the report fail sometimes
			if p.Var%5 == 0 {
				for _, m := range w.sc.Msgs {
					p.Rcpt[m.From] = actors.Outcome(1 + p.Var%3)
				}
			}
		}
		return p
	}
	return &actors.StagePlan{}
}

func (w *World) boot(delay time.Duration) {
	w.incN++
	inc := &simrt.Inc{ID: w.incN}
	w.inc = inc
	w.booted = false
	w.q = nil
	w.s.Spawn(fmt.Sprintf("boot%d", w.incN), inc, func() {
		if delay > 0 {
			simrt.Sleep(delay)
			simrt.Yield("boot:after-delay")
		}
		var bounce module.DeliveryTarget
		if w.sc.Bounce {
			bounce = w.sink
		}
		if w.sc.Bounce && w.sc.Chain && w.prop == "C18" {
			q2, err := queue.VerifNewQueue(queue.VerifConfig{
				Location:         spool2,
				Target:           w.chainTgt,
				Bounce:           w.sink2,
				Hostname:         "mx.sim.example",
				AutogenMsgDomain: "sim.example",
				InitialRetry:     w.sc.Retry,
				RetryScale:       w.sc.Scale,
				MaxTries:         2,
				Parallelism:      w.sc.Parallel,
				Log:              log.Logger{Out: log.NopOutput{}, Name: "queue2"},
			})
			if err != nil {
				simrt.Harnessf("second queue: %v", err)
			}
			w.q2 = q2
			bounce = &tee{a: w.sink, b: q2}
		}
		var down module.DeliveryTarget = w.tgt
		if w.downOverride != nil {
			down = w.downOverride
		}
		q, err := queue.VerifNewQueue(queue.VerifConfig{
			Location:         spool,
			Target:           down,
			Bounce:           bounce,
			Hostname:         "mx.sim.example",
			AutogenMsgDomain: "sim.example",
			InitialRetry:     w.sc.Retry,
			RetryScale:       w.sc.Scale,
			MaxTries:         w.sc.MaxTries,
			PostInitDelay:    w.sc.PostInit,
			Parallelism:      w.sc.Parallel,
			Log:              log.Logger{Out: log.NopOutput{}, Name: "queue"},
		})
		w.q, w.qErr = q, err
		w.booted = true
		w.s.Logf("boot inc=%d err=%v", inc.ID, err)
	})
}

func (w *World) producer(m *Msg, inc *simrt.Inc) func() {
	return func() {
		defer func() { w.prodDone++ }()
		q := w.q
		ctx := context.Background()
		// The call order and the moments at which metadata fields are filled
		// in mirror the SMTP endpoint and the message pipeline: the
		// original-recipient map grows while recipients are added, and the
		// TLS-Required override is only known once the header was parsed,
		// i.e. after Start/AddRcpt and before Body.
		meta := &module.MsgMetadata{
			ID:           m.ID,
			OriginalFrom: m.OrigFrom,
			SMTPOpts:     smtp.MailOptions{UTF8: m.UTF8, RequireTLS: m.RequireTLS},
			Conn: &module.ConnState{
				Proto:        "ESMTPSA",
				Hostname:     "client.example",
				AuthUser:     "user-" + m.ID,
				AuthPassword: passwordMarker,
			},
		}
		d, err := q.Start(ctx, meta, m.From)
		if err != nil {
			m.bodyErr = "start: " + err.Error()
			return
		}
		for _, r := range m.Rcpts {
			if o := m.OrigRcpts[r]; o != "" {
				if meta.OriginalRcpts == nil {
					meta.OriginalRcpts = map[string]string{}
				}
				meta.OriginalRcpts[r] = o
			}
			if err := d.AddRcpt(ctx, r, smtp.RcptOptions{}); err != nil {
				m.bodyErr = "rcpt: " + err.Error()
				d.Abort(ctx)
				return
			}
		}
		meta.TLSRequireOverride = m.TLSOverride
		simrt.Point("prod:"+m.ID, "body")
		if err := d.Body(ctx, m.Hdr, buffer.MemoryBuffer{Slice: m.Body}); err != nil {
			m.bodyErr = "body: " + err.Error()
			w.s.Logf("producer %s Body failed: %v", m.ID, err)
			d.Abort(ctx)
			return
		}
		m.bodyDone = true
		simrt.Point("prod:"+m.ID, "finish")
		if m.AbortIt {
			d.Abort(ctx)
			m.aborted = true
			w.s.Logf("producer %s aborted", m.ID)
			return
		}
		if err := d.Commit(ctx); err != nil {
			m.bodyErr = "commit: " + err.Error()
			return
		}
		m.acked = true
		m.ackInc = inc.ID
		m.ackAt = w.s.Now()
		w.s.Logf("producer %s acked", m.ID)
	}
}

// horizon is a generous upper bound on the simulated time the retry ladder
// needs; only used to stop waiting, never as an oracle.
func (w *World) horizon() time.Duration {
	sc := w.sc
	f := math.Ceil(math.Pow(sc.Scale, float64(sc.MaxTries)))
	per := time.Duration(float64(sc.Retry)*f) + sc.PostInit + time.Minute
	return time.Duration(sc.MaxTries+2)*per + time.Hour
}

func knob(a *harness.Args, name string, def int) int {
	if v, ok := a.Knobs[name]; ok {
		return v
	}
	return def
}

// Run is the world function for all queue properties.
func Run(s *simrt.Sim, a *harness.Args, r *harness.Result) {
	log.DefaultLogger.Out = log.NopOutput{}
	w := &World{s: s, a: a, prop: a.Prop, closeDone: map[int]bool{}, closeStep: map[int]int{}}
	prof := strings.ToLower(a.Prop)
	w.sc = Gen(s.T, prof)
	sc := w.sc

	w.fs = simfs.New()
	simfs.Use(w.fs)
	simfs.MkdirAll(spool, 0o755)
	w.fs.OnWrite = func(path string, data []byte) {
		if strings.Contains(string(data), passwordMarker) && w.credLeak == "" {
			w.credLeak = path
		}
	}
	w.tgt = &actors.ScriptedTarget{Label: "down", Partial: sc.Partial, Prop: a.Prop}
	w.tgt.PlanFor = w.planFor
	w.sink = &actors.ScriptedTarget{Label: "bounce", Prop: a.Prop}
	// the bounce pipeline records a recipient rewrite in the metadata of the
	// report it is handed (what a real pipeline with an alias table does): the
	// report's metadata is the report's own - nothing of it may show up in the
	// envelope of the message the report is about
	w.sink.OnStart = func(m *module.MsgMetadata) {
		if m.OriginalRcpts == nil {
			m.OriginalRcpts = map[string]string{}
		}
		m.OriginalRcpts["postmaster-mbox@bounce.example"] = "postmaster-alias@bounce.example"
	}
	w.sink.PlanFor = w.sinkPlanFor
	simfs.CanonName = nil
	if a.Prop == "C01" && s.T.Choose("scen", 4) == 0 {
		// the queue's target is a (transparent) message pipeline in front of
		// the scripted downstream - `target &some_pipeline`. The messages come
		// with the rewrite history of the pipeline that accepted them
		// (OriginalRcpts); results must still reach the queue under the
		// addresses the queue handed over.
		module.RegisterInstance(w.tgt, nil)
		delete(module.Initialized, "down")
		pipe, err := msgpipeline.New(nil, []config.Node{{Name: "deliver_to", Args: []string{"&down"}}})
		if err != nil {
			simrt.Harnessf("pipeline in front of the downstream: %v", err)
		}
		pipe.Hostname = "mx.sim.example"
		pipe.Log = log.Logger{Out: log.NopOutput{}}
		w.downOverride = pipe
		w.viaPipe = true
		// (the pipeline starts its target when the first recipient needs it
		// and again for the next recipient if that failed: downstream
		// transactions and queue attempts are no longer one to one. Failures
		// of the session-start stage stay with the runs without a pipeline.)
		for _, m := range sc.Msgs {
			for _, pl := range m.Plans {
				pl.Start = actors.OK
			}
		}
		s.Stat("downstream_behind_pipeline")
	}
	if sc.Chain {
		// the second queue stores reports under their random identifiers
		simfs.CanonName = func(b string) string {
			stem, ext := b, ""
			if i := strings.Index(b, "."); i >= 0 {
				stem, ext = b[:i], b[i:]
			}
			if strings.HasPrefix(stem, "msg") || stem == "" {
				return b
			}
			return s.ID("id", stem) + ext
		}
		simfs.MkdirAll(spool2, 0o755)
		w.chainTgt = &actors.ScriptedTarget{Label: "chain", Prop: a.Prop}
		w.chainTgt.PlanFor = func(tx *actors.TxRecord) *actors.StagePlan {
			if n := len(w.chainTgt.Txs) - 1; n >= 0 && n < len(sc.ChainPlans) {
				return sc.ChainPlans[n]
			}
			return &actors.StagePlan{}
		}
		w.sink2 = &actors.ScriptedTarget{Label: "bounce2", Prop: a.Prop}
	}

	if (a.Prop == "C01" || a.Prop == "C10") && s.T.Choose("scen", 4) == 0 {
		// one failing write (I/O error or disk full) while the meta-data of a
		// message is (re)written: the hand-off or the attempt's bookkeeping
		// fails, nothing that was acknowledged may get lost
		w.fs.FaultOps = map[string]bool{"write": true}
		w.fs.FaultSuffix = ".meta.new"
		w.fs.FaultBudget = 1
		w.fs.FaultNum, w.fs.FaultDen = 1, 3
	}
	// crash knobs (C02, C10): crash_at = mutating op number, 0 = none
	w.fs.CrashAt = knob(a, "crash_at", 0)
	w.fs.Model = simfs.CrashModel(knob(a, "crash_model", 0))
	w.fs.Torn = knob(a, "crash_torn", 0) == 1
	w.fs.TailKeep = knob(a, "crash_tail", 0)
	crash2 := knob(a, "crash2_at", 0)
	if knob(a, "rand_crash", 0) == 1 && s.T.Choose("crash", 2) == 1 {
		// one crash at a drawn operation (a point past the last operation
		// simply never fires)
		w.fs.CrashAt = 1 + s.T.Choose("crash", 70)
		w.fs.Model = simfs.CrashModel(s.T.Choose("crash", 2))
		w.fs.Torn = s.T.Choose("crash", 2) == 1
		w.fs.TailKeep = s.T.Choose("crash", 3)
	}
	w.fs.OnCrash = func(op string) {
		w.crashOps = append(w.crashOps, op)
		w.crashes++
		w.crashed = true
		s.KillInc(w.inc)
	}

	// schedule knobs
	switch a.Prop {
	case "C02":
		s.PreemptBudget = []int{0, 1, 2, 3}[s.T.Choose("knob", 4)]
		s.PreemptNum, s.PreemptDen = 1, []int{2, 4, 8}[s.T.Choose("knob", 3)]
	case "C12":
		s.PreemptBudget = []int{0, 1, 2, 3, -1}[s.T.Choose("knob", 5)]
		s.PreemptNum, s.PreemptDen = 1, []int{2, 4, 8, 16}[s.T.Choose("knob", 4)]
		s.TimeNum, s.TimeDen = 1, []int{8, 32}[s.T.Choose("knob", 2)]
		s.TimeLadder = []time.Duration{time.Millisecond, time.Second, sc.Retry + time.Second}
		s.TimeBudget = 6
		s.LateStarts = s.T.Choose("knob", 4) == 0
	default:
		// (-1: random walk - attempts that are due together, and their reads
		// of the spool, really interleave)
		s.PreemptBudget = []int{0, 0, 1, 2, -1}[s.T.Choose("knob", 5)]
		s.PreemptNum, s.PreemptDen = 1, 8
	}
	s.MaxSteps = 60000

	w.boot(0)
	if s.Run(time.Minute, func() bool { return w.booted }) != simrt.Progress || !w.booted {
		simrt.Harnessf("queue did not boot")
	}
	if w.qErr != nil {
		simrt.Harnessf("queue boot failed: %v", w.qErr)
	}
	inc1 := w.inc
	w.prodTotal = len(sc.Msgs)
	if sc.Concurrent {
		for _, m := range sc.Msgs {
			s.Spawn("prod-"+m.ID, inc1, w.producer(m, inc1))
		}
	} else {
		s.Spawn("prod-seq", inc1, func() {
			for _, m := range sc.Msgs {
				w.producer(m, inc1)()
				w.prodDone--
			}
			w.prodDone = w.prodTotal
		})
	}

	// shutdown knob (C12): a closer task calls Close concurrently
	closeMode := 0
	if a.Prop == "C12" {
		closeMode = 1 + s.T.Choose("scen", 3) // 1: close concurrently, 2: close late, 3: close at a drawn time
	}
	if closeMode == 3 {
		// Close in the middle of the retry schedule (after one, two or more
		// attempts, with a retry pending): the restarted queue schedules the
		// pending retry from what the closed one left in the spool
		d := []time.Duration{sc.Retry / 2, sc.Retry + sc.Retry/10, 2*sc.Retry + sc.Retry/4, 4 * sc.Retry}[s.T.Choose("scen", 4)]
		s.Spawn("closer", inc1, func() {
			if d > 0 {
				simrt.Sleep(d)
				simrt.Yield("closer:woke")
			}
			w.closeRequested = true
			s.Logf("closer: Close() after %v", d)
			w.q.Close()
			w.closeReturned = true
			w.closeStep[inc1.ID] = s.Steps()
			s.Logf("closer: Close returned")
		})
	}
	if closeMode == 1 {
		wait := s.T.Choose("scen", 12)
		s.Spawn("closer", inc1, func() {
			for i := 0; i < wait; i++ {
				simrt.Point("closer", "wait")
			}
			w.closeRequested = true
			s.Logf("closer: Close()")
			w.q.Close()
			w.closeReturned = true
			w.closeStep[inc1.ID] = s.Steps()
			s.Logf("closer: Close returned")
		})
	}

	hz := w.horizon()
	timedClose := closeMode == 3
	phase := func(limit time.Duration) simrt.StepResult {
		// (after a timed Close the restart follows at once, not at the horizon:
		// the point is a restart while retries are still pending)
		return s.Run(limit, func() bool { return w.crashed || (timedClose && w.closeReturned && w.prodDone >= w.prodTotal) })
	}
	res := phase(hz)
	timedClose = false
	// crash → restart loop
	for w.crashed && len(s.Violations()) == 0 {
		w.crashed = false
		delay := []time.Duration{0, time.Second, time.Hour, 48 * time.Hour}[s.T.Choose("restart", 4)]
		if a.Prop == "C02" && s.T.Choose("restart", 2) == 1 {
			// the recovery run under a random-walk schedule: whatever recovery
			// starts side by side (two entries for one message, say) really
			// overlaps. Drawn after the stop, so the operation numbering of the
			// crash-free base run is not disturbed.
			s.PreemptBudget = -1
			s.Stat("sched_random_walk_recovery")
		}
		if crash2 > 0 && w.crashes == 1 {
			w.fs.CrashAt = w.fs.OpN + crash2
		}
		w.boot(delay)
		res = phase(hz + delay)
	}
	if res == simrt.Budget && len(s.Violations()) == 0 {
		w.violateHang("step budget exhausted; parked=" + strings.Join(s.ParkedKeys(), ","))
	}

	// clean shutdown of the live incarnation, then (C12) a restart to see
	// that everything left in the spool is picked up
	if len(s.Violations()) == 0 && !w.closeRequested {
		w.closeLive()
	}
	if a.Prop == "C12" && len(s.Violations()) == 0 {
		w.checkShutdownState()
		if len(s.Violations()) == 0 {
			w.boot(time.Second)
			res = phase(hz)
			if res == simrt.Budget {
				w.violateHang("restart after shutdown: step budget exhausted")
			}
			if len(s.Violations()) == 0 {
				w.closeLive()
			}
		}
	}

	nv := len(s.Violations())
	w.oracles()
	w.settleHang(nv)

	r.Shape = sc.Shape()
	st := s.Stats()
	nf := 0
	for k, v := range st {
		if strings.HasPrefix(k, "fault_") || strings.HasPrefix(k, "crash_") {
			nf += v
		}
	}
	r.Nontrivial = nf > 0 || s.Preempts() > 0
	s.StatN("fs_ops", w.fs.OpN)
	r.Sample = w.sample()
	r.Ops = append([]string(nil), w.fs.Ops...)
	r.Knobs = a.Knobs
}

func (w *World) violateHang(detail string) {
	switch w.prop {
	case "C12":
		key := "C12/close-hang"
		for _, k := range w.s.ParkedKeys() {
			if strings.Contains(k, "timewheel:Add") {
				key = "C12/add-hang"
			}
		}
		w.s.Violate(key, "%s", detail)
	case "C02":
		w.s.Violate("C02/recovery-hang", "%s", detail)
	case "C01":
		// judged after the conservation oracle: a queue that stopped making
		// progress with recipients still pending is a violation, not a harness problem
		w.hang = detail
	default:
		simrt.Harnessf("run did not quiesce: %s", detail)
	}
}

// settleHang is called after the oracles: a hang is reported as C01/stuck if
// (and only if) the oracles found recipients without an outcome.
func (w *World) settleHang(before int) {
	if w.hang == "" {
		return
	}
	if len(w.s.Violations()) > before {
		w.s.Violate("C01/stuck", "the queue stopped making progress with recipients pending: %s", w.hang)
		return
	}
	simrt.Harnessf("run did not quiesce: %s", w.hang)
}

// closeLive closes the current queue from a task and waits for it.
func (w *World) closeLive() {
	if w.q == nil {
		return
	}
	q := w.q
	q2 := w.q2
	n := w.incN
	w.s.Spawn(fmt.Sprintf("close%d", n), w.inc, func() {
		q.Close()
		w.closeStep[n] = w.s.Steps()
		if q2 != nil {
			q2.Close()
		}
		w.closeDone[n] = true
	})
	res := w.s.Run(time.Hour, func() bool { return w.closeDone[n] })
	if !w.closeDone[n] || res != simrt.Progress {
		if w.prop == "C12" {
			w.violateHang("final Close did not return; parked=" + strings.Join(w.s.ParkedKeys(), ","))
		} else if w.prop == "C01" {
			w.violateHang(fmt.Sprintf("final Close did not return; parked=%v", w.s.ParkedKeys()))
		} else if len(w.s.Violations()) == 0 {
			simrt.Harnessf("final Close did not return; parked=%v", w.s.ParkedKeys())
		}
	}
}

func (w *World) sample() interface{} {
	var txs []string
	for _, tx := range w.tgt.Records() {
		txs = append(txs, fmt.Sprintf("tx%d %s inc%d @%s start=%v rcpts=%v body=%v/%v commit=%d/%v abort=%d",
			tx.N, actors.BaseID(tx.MsgID), tx.Inc, tx.At, tx.StartRes, fmtRes(tx), tx.BodyCall, tx.BodyRes, tx.Commits, tx.CommitRes, tx.Aborts))
	}
	var reports []string
	for _, tx := range w.sink.Records() {
		reports = append(reports, fmt.Sprintf("dsn%d to=%v commits=%d aborts=%d", tx.N, tx.Rcpts, tx.Commits, tx.Aborts))
	}
	return map[string]interface{}{
		"scenario": w.sc.Shape(),
		"knobs":    w.a.Knobs,
		"txs":      txs,
		"reports":  reports,
		"fs_ops":   w.fs.OpN,
		"crashes":  w.crashOps,
		"spool":    w.fs.Names(spool),
	}
}

func fmtRes(tx *actors.TxRecord) string {
	var parts []string
	for _, r := range tx.Rcpts {
		st := ""
		if tx.Partial && tx.BodyCall {
			st = "/" + tx.Statuses[r].String()
		}
		parts = append(parts, fmt.Sprintf("%s=%v%s", r, tx.RcptRes[r], st))
	}
	sort.Strings(parts)
	return strings.Join(parts, ",")
}

// tee hands every delivery to a first and, as far as that one accepts it, to b
// as well - what a pipeline with two targets does. Only a decides the result.
type tee struct{ a, b module.DeliveryTarget }

type teeDelivery struct{ a, b module.Delivery }

func (t *tee) Start(ctx context.Context, meta *module.MsgMetadata, from string) (module.Delivery, error) {
	da, err := t.a.Start(ctx, meta, from)
	if err != nil {
		return nil, err
	}
	db, err := t.b.Start(ctx, meta, from)
	if err != nil {
		db = nil
	}
	return &teeDelivery{a: da, b: db}, nil
}

func (d *teeDelivery) dropB(ctx context.Context) {
	if d.b != nil {
		d.b.Abort(ctx)
		d.b = nil
	}
}

func (d *teeDelivery) AddRcpt(ctx context.Context, rcpt string, opts smtp.RcptOptions) error {
	if err := d.a.AddRcpt(ctx, rcpt, opts); err != nil {
		return err
	}
	if d.b != nil && d.b.AddRcpt(ctx, rcpt, opts) != nil {
		d.dropB(ctx)
	}
	return nil
}

func (d *teeDelivery) Body(ctx context.Context, h textproto.Header, b buffer.Buffer) error {
	if err := d.a.Body(ctx, h, b); err != nil {
		return err
	}
	if d.b != nil && d.b.Body(ctx, h, b) != nil {
		d.dropB(ctx)
	}
	return nil
}

func (d *teeDelivery) Abort(ctx context.Context) error {
	d.dropB(ctx)
	return d.a.Abort(ctx)
}

func (d *teeDelivery) Commit(ctx context.Context) error {
	if err := d.a.Commit(ctx); err != nil {
		d.dropB(ctx)
		return err
	}
	if d.b != nil {
		d.b.Commit(ctx)
		d.b = nil
	}
	return nil
}
