package qa

import (
	"strings"

	"github.com/foxcpp/maddy/internal/verifsim/harness"
	"github.com/foxcpp/maddy/internal/verifsim/simrt"
)

func init() { harness.Expanders["qa"] = expandCrash }

// expandCrash enumerates every crash point of a scenario: before each
// mutating file-system operation of the crash-free run, in both crash models,
// with torn variants for writes; plus depth-2 points inside the recovery run.
func expandCrash(a *harness.Args, base *harness.Result, t *simrt.Tape) []map[string]int {
	if a.Extra["expand"] != "crash" {
		return nil
	}
	var out []map[string]int
	n := len(base.Ops)
	depth2 := a.Knobs["depth2"]
	for k := 1; k <= n; k++ {
		op := base.Ops[k-1]
		isWrite := strings.HasPrefix(op, "write ")
		variants := []map[string]int{
			{"crash_at": k, "crash_model": 0},
			{"crash_at": k, "crash_model": 1, "crash_tail": 0},
		}
		if isWrite {
			variants = append(variants,
				map[string]int{"crash_at": k, "crash_model": 0, "crash_torn": 1},
				map[string]int{"crash_at": k, "crash_model": 1, "crash_torn": 1, "crash_tail": 1},
			)
		}
		if isWrite || strings.HasPrefix(op, "sync ") || strings.HasPrefix(op, "rename ") {
			variants = append(variants, map[string]int{"crash_at": k, "crash_model": 1, "crash_tail": 2})
		}
		out = append(out, variants...)
		switch {
		case depth2 < 0:
			lim := n
			if lim > 40 {
				lim = 40
			}
			for k2 := 1; k2 <= lim; k2++ {
				out = append(out,
					map[string]int{"crash_at": k, "crash_model": 0, "crash2_at": k2},
					map[string]int{"crash_at": k, "crash_model": 1, "crash_tail": 0, "crash2_at": k2})
			}
		case depth2 > 0:
			for i := 0; i < depth2; i++ {
				k2 := 1 + t.Choose("d2", 30)
				out = append(out, map[string]int{"crash_at": k, "crash_model": t.Choose("d2", 2), "crash_tail": 0, "crash2_at": k2})
			}
		}
	}
	return out
}
