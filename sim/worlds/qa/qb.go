package qa

import (
	"bytes"
	"context"
	"fmt"
	"net"
	"strings"
	"time"

	"github.com/emersion/go-message/textproto"
	"github.com/foxcpp/go-mockdns"
	"github.com/foxcpp/maddy/framework/config"
	"github.com/foxcpp/maddy/framework/log"
	"github.com/foxcpp/maddy/framework/module"
	"github.com/foxcpp/maddy/internal/target/remote"
	smtpdown "github.com/foxcpp/maddy/internal/target/smtp"
	"github.com/foxcpp/maddy/internal/verifsim/actors"
	"github.com/foxcpp/maddy/internal/verifsim/harness"
	"github.com/foxcpp/maddy/internal/verifsim/simfs"
	"github.com/foxcpp/maddy/internal/verifsim/simnet"
	"github.com/foxcpp/maddy/internal/verifsim/simrt"
	"golang.org/x/net/idna"
)

// World Q-B: the real queue over the real SMTP/LMTP forwarding target
// (target.smtp / target.lmtp = smtp_downstream + smtpconn + go-smtp client)
// talking over the simulated network to a scripted, misbehaving server.

const mxAddr = "mx1.dest.example:2525"

var qbRcpts = []string{"alice@dest.example", "bob@dest.example", "carol@xn--e1aybc.example", "dave@тест.example", "üser@dest.example", "Erin@Dest.EXAMPLE"}

// wireForm is the spelling a recipient has on the wire towards a server that
// does or does not offer SMTPUTF8 ("" = cannot be sent at all).
func wireForm(r string, smtputf8 bool) string {
	if smtputf8 || isASCII(r) {
		return r
	}
	i := strings.LastIndex(r, "@")
	if !isASCII(r[:i]) {
		return ""
	}
	d, err := idna.ToASCII(r[i+1:])
	if err != nil {
		return ""
	}
	return r[:i+1] + d
}

func genOutcomes(t *simrt.Tape, n, num int) []actors.Outcome {
	out := make([]actors.Outcome, n)
	for i := range out {
		out[i] = genOutcome(t, "plan", num)
	}
	return out
}

// flakyMX fails the first n MX lookups temporarily (discovery failure defers).
type flakyMX struct {
	*mockdns.Resolver
	s *simrt.Sim
	n int
}

func (r *flakyMX) LookupMX(ctx context.Context, name string) ([]*net.MX, error) {
	if r.n > 0 {
		r.n--
		r.s.Stat("fault_dns_mx_tempfail")
		return nil, &net.DNSError{Err: "scripted SERVFAIL", Name: name, IsTemporary: true}
	}
	return r.Resolver.LookupMX(ctx, name)
}

// RunQB is the world function for the real-client part of C01 and C09.
func RunQB(s *simrt.Sim, a *harness.Args, r *harness.Result) {
	log.DefaultLogger.Out = log.NopOutput{}
	const st = "scen"
	w := &World{s: s, a: a, prop: a.Prop, closeDone: map[int]bool{}, closeStep: map[int]int{}}
	sc := &Scenario{Bounce: true, Partial: true}
	w.sc = sc
	kindN := s.T.Choose(st, 3) // 0 target.smtp, 1 target.lmtp, 2 target.remote
	lmtp := kindN == 1
	isRemote := kindN == 2
	sc.MaxTries = 1 + s.T.Choose(st, 3)
	sc.Retry = []time.Duration{time.Second, 15 * time.Minute}[s.T.Choose(st, 2)]
	sc.Scale = 1
	sc.Parallel = []int{1, 2}[s.T.Choose(st, 2)]
	num := []int{0, 2, 4, 6}[s.T.Choose(st, 4)]
	plan := &actors.MXPlan{LMTP: lmtp, EnhCodes: s.T.Choose(st, 4) != 0, SMTPUTF8: s.T.Choose(st, 2) == 1, NonASCIIText: s.T.Choose(st, 5) == 0, Perm552: s.T.Choose(st, 4) == 0,
		Rcpt: map[string][]actors.Outcome{}, FinalPer: map[string][]actors.Outcome{}}
	nm := 1 + s.T.Choose(st, 2)
	for i := 0; i < nm; i++ {
		m := &Msg{ID: fmt.Sprintf("msg%d", i+1), From: "sender@origin.example", OrigFrom: "sender@origin.example"}
		m.UTF8 = s.T.Choose(st, 2) == 1
		pool := qbRcpts
		if !m.UTF8 {
			pool = asciiLocal(qbRcpts)
		}
		m.Rcpts = pickDistinct(s.T, st, pool, 1+s.T.Choose(st, 3))
		h := textproto.Header{}
		h.Add("Subject", "qb "+m.ID)
		h.Add("X-Sim-Msg", m.ID)
		var out bytes.Buffer
		textproto.WriteHeader(&out, h)
		m.Hdr, m.HdrBytes = h, out.Bytes()
		m.Body = []byte("body of " + m.ID + "\r\n.dot\r\n")
		if s.T.Choose(st, 3) == 0 {
			// larger than the client's write buffer: the transfer takes several writes
			m.Body = append(m.Body, bytes.Repeat([]byte("0123456789abcdef0123456789abcdef0123456789abcdef0123456789abcde\r\n"), 200)...)
		}
		sc.Msgs = append(sc.Msgs, m)
	}
	total := nm * sc.MaxTries
	if isRemote {
		// one transaction per destination domain and attempt
		total *= 3
	}
	dnsFailN := 0
	if isRemote {
		dnsFailN = []int{0, 0, 1, 2}[s.T.Choose(st, 4)]
	}
	plan.Greeting = genOutcomes(s.T, total, num/2)
	plan.Mail = genOutcomes(s.T, total, num/2)
	plan.Data = genOutcomes(s.T, total, num/2)
	plan.Final = genOutcomes(s.T, total, num)
	for _, r0 := range qbRcpts {
		for _, utf8 := range []bool{true, false} {
			if wf := wireForm(r0, utf8); wf != "" {
				plan.Rcpt[wf] = genOutcomes(s.T, total, num)
				plan.FinalPer[wf] = genOutcomes(s.T, total, num)
			}
		}
	}
	for i := 0; i < total; i++ {
		plan.DropAfterFinal = append(plan.DropAfterFinal, s.T.Bool("plan", num, 48))
		plan.DropMidData = append(plan.DropMidData, s.T.Bool("plan", num, 24))
		d := -1
		if lmtp && s.T.Bool("plan", num, 32) {
			d = s.T.Choose("plan", 3)
		}
		plan.DropAfterStatuses = append(plan.DropAfterStatuses, d)
	}
	refuseFirst := s.T.Bool("plan", num, 32)

	w.fs = simfs.New()
	simfs.Use(w.fs)
	simfs.MkdirAll(spool, 0o755)
	if s.T.Choose(st, 4) == 0 {
		// one transient read error on a spooled body, i.e. while an attempt
		// transmits it: that attempt fails, the outcome stays unique
		w.fs.FaultOps = map[string]bool{"read": true}
		w.fs.FaultSuffix = ".body"
		w.fs.FaultBudget = 1
		w.fs.FaultNum, w.fs.FaultDen = 1, 3
	}
	nw := simnet.New()
	nw.SockBuf = []int{0, 0, 4096}[s.T.Choose(st, 3)]
	simnet.SetCurrent(nw, "192.0.2.1:40000")
	defer simnet.SetCurrent(nil, "")
	mx := &actors.ScriptedMX{Host: "mx1.dest.example", Plan: plan, PKI: actors.SharedPKI()}
	w.sink = &actors.ScriptedTarget{Label: "bounce", Prop: a.Prop}
	s.PreemptBudget = []int{0, 0, 1, 2}[s.T.Choose("knob", 4)]
	s.PreemptNum, s.PreemptDen = 1, 8
	s.MaxSteps = 80000

	modName := "target.smtp"
	if lmtp {
		modName = "target.lmtp"
	}
	var down module.DeliveryTarget
	var berr error
	built := false
	if isRemote {
		modName = "target.remote"
	}
	var rt *remote.Target
	s.Spawn("boot0", nil, func() {
		if isRemote {
			// the real remote-MX target without security policies: MX lookup
			// (stub zone), connection cache, one transaction per domain
			mod, err := remote.New("target.remote", "remote", nil, nil)
			if err == nil {
				rt = mod.(*remote.Target)
				rt.Log = log.Logger{Out: log.NopOutput{}, Name: "remote"}
				err = rt.Init(config.NewMap(nil, config.Node{Children: []config.Node{{Name: "hostname", Args: []string{"mx.sim.example"}}}}))
			}
			if err == nil {
				zone := mockdns.Zone{MX: []net.MX{{Host: "mx1.dest.example.", Pref: 10}}}
				res := &flakyMX{s: s, n: dnsFailN, Resolver: &mockdns.Resolver{Zones: map[string]mockdns.Zone{
					"dest.example.": zone, "тест.example.": zone, "xn--e1aybc.example.": zone}}}
				remote.VerifSetPort("2525")
				rt.VerifSeams(res, nw.Dialer("192.0.2.1:40000"), actors.SharedPKI().Roots, nil, nil)
				down = rt
			}
			berr = err
			built = true
			return
		}
		mod, err := smtpdown.NewDownstream(modName, "down", nil, []string{"tcp://" + mxAddr})
		if err != nil {
			berr = err
			built = true
			return
		}
		d := mod.(*smtpdown.Downstream)
		berr = d.Init(config.NewMap(nil, config.Node{Children: []config.Node{
			{Name: "hostname", Args: []string{"mx.sim.example"}},
			{Name: "starttls", Args: []string{"no"}},
		}}))
		down = d
		built = true
	})
	s.Run(time.Second, func() bool { return built })
	if !built || berr != nil {
		simrt.Harnessf("downstream target init failed: %v", berr)
	}
	// the C09 monitor sits between the queue and the real target
	mon := &actors.StatusMonitor{Inner: down, Label: modName}
	if a.Prop == "C09" {
		mon.Prop = "C09"
	}
	w.tgt = &actors.ScriptedTarget{Label: "unused"}
	qdown := module.DeliveryTarget(mon)

	if !refuseFirst {
		l := nw.Listen(mxAddr)
		s.Spawn("mxserve", nil, func() { mx.Serve(l) })
	} else {
		// nothing listens at first (connection refused), the server comes up later
		s.Spawn("mxlate", nil, func() {
			simrt.Sleep(10 * time.Second)
			simrt.Yield("mx:up")
			l := nw.Listen(mxAddr)
			mx.Serve(l)
		})
	}
	w.bootWith(0, qdown)
	if s.Run(time.Minute, func() bool { return w.booted }) != simrt.Progress || !w.booted || w.qErr != nil {
		simrt.Harnessf("queue did not boot: %v", w.qErr)
	}
	inc1 := w.inc
	w.prodTotal = len(sc.Msgs)
	prodFinished := false
	s.Spawn("prod-seq", inc1, func() {
		for _, m := range sc.Msgs {
			w.producer(m, inc1)()
		}
		prodFinished = true
	})
	var settled func() bool
	if isRemote {
		// the connection cache's sweeper ticks for ever: the run is over when
		// the spool is empty (or after a generous amount of simulated time)
		start := time.Now()
		limit := 3 * w.horizon()
		settled = func() bool {
			return (prodFinished && len(w.fs.Names(spool)) == 0) || time.Since(start) > limit
		}
	}
	res := s.Run(w.horizon(), settled)
	if isRemote && len(w.fs.Names(spool)) > 0 && len(s.Violations()) == 0 {
		w.violateHang(fmt.Sprintf("spool not empty after %v; parked=%v", 3*w.horizon(), s.ParkedKeys()))
	}
	if res == simrt.Budget {
		w.violateHang(fmt.Sprintf("step budget exhausted; parked=%v", s.ParkedKeys()))
	}
	if w.hang == "" {
		w.closeLive()
	}
	if rt != nil && w.hang == "" {
		// closes the cached connections and stops the cache's sweeper
		closed := false
		s.Spawn("rtclose", nil, func() { rt.Close(); closed = true })
		s.Run(time.Minute, func() bool { return closed })
		s.Run(time.Second, nil)
	}
	for _, p := range s.Panics() {
		if p.Func != "HARNESS" {
			s.Violate(a.Prop+"/panic/"+p.Func, "task %s panicked: %s", p.Task, p.Value)
		}
	}
	if len(s.Violations()) == 0 && a.Prop == "C01" {
		w.oracleQB(mx, plan, isRemote)
		w.settleHang(0)
	}
	kind := "smtp"
	if lmtp {
		kind = "lmtp"
	}
	if isRemote {
		kind = fmt.Sprintf("remote dnsfail=%d", dnsFailN)
	}
	r.Shape = fmt.Sprintf("%s utf8srv=%v tries=%d retry=%v msgs=%d f=%d", kind, plan.SMTPUTF8, sc.MaxTries, sc.Retry, nm, num)
	for _, m := range sc.Msgs {
		r.Shape += fmt.Sprintf("[%v u=%v]", m.Rcpts, m.UTF8)
	}
	st2 := s.Stats()
	nf := 0
	for k, v := range st2 {
		if strings.HasPrefix(k, "fault_") {
			nf += v
		}
	}
	r.Nontrivial = nf > 0 || s.Preempts() > 0
	var rec []string
	for _, tx := range mx.Received() {
		rec = append(rec, fmt.Sprintf("#%d conn%d rcpts=%v final=%d per=%v lost=%v", tx.N, tx.ConnID, tx.Rcpts, tx.FinalCode, tx.PerRcpt, tx.ReplyLost))
	}
	r.Sample = map[string]interface{}{"scenario": r.Shape, "server_received": rec, "status_calls": mon.Summary()}
}

// bootWith starts the queue over an arbitrary downstream target.
func (w *World) bootWith(delay time.Duration, down module.DeliveryTarget) {
	w.downOverride = down
	w.boot(delay)
}

// oracleQB: conservation at the server boundary.
func (w *World) oracleQB(mx *actors.ScriptedMX, plan *actors.MXPlan, isRemote bool) {
	s := w.s
	reps := w.reports()
	recv := mx.Received()
	kind := "smtp-client"
	if plan.LMTP {
		kind = "lmtp-client"
	}
	if isRemote {
		kind = "remote-client"
	}
	for _, m := range w.sc.Msgs {
		if !m.acked {
			continue
		}
		marker := "X-Sim-Msg: " + m.ID + "\r\n"
		for _, r := range m.Rcpts {
			wf := wireForm(r, plan.SMTPUTF8 && m.UTF8)
			if wf == "" {
				wf = wireForm(r, false)
			}
			definite, maybe, attempts := 0, 0, 0
			permAt := -1
			for _, tx := range recv {
				if !bytes.Contains(tx.Data, []byte(marker)) {
					continue
				}
				// retry discipline seen from the server: a recipient whose RCPT
				// was refused permanently in a transaction of this message that
				// went on to transfer content (so the client had read the
				// refusal) is not named again in a later transaction of it
				if permAt >= 0 && (contains(tx.RcptsAll, wf) || contains(tx.RcptsAll, r)) {
					s.Violate("C01/retry-after-permanent/"+kind, "%s: %s was refused permanently at RCPT in transaction #%d and named again in transaction #%d", m.ID, r, permAt, tx.N)
				}
				if permAt < 0 && (contains(tx.RcptPerm, wf) || contains(tx.RcptPerm, r)) {
					permAt = tx.N
				}
				if !contains(tx.Rcpts, wf) && !contains(tx.Rcpts, r) {
					continue
				}
				attempts++
				key := wf
				if contains(tx.Rcpts, r) {
					key = r
				}
				switch {
				case tx.ReplyLost:
					maybe++
				case plan.LMTP:
					code, answered := tx.PerRcpt[key]
					if !answered {
						maybe++ // connection dropped before this recipient's status
					} else if code/100 == 2 {
						definite++
					}
				default:
					if tx.FinalCode/100 == 2 {
						definite++
					}
				}
			}
			reported := 0
			name := reportName(m, r)
			for _, rr := range reps {
				if rr.rep == nil || rr.m != m {
					continue
				}
				for _, x := range rr.rep.Rcpts {
					if canonAddr(x.Addr) == name {
						reported++
					}
				}
			}
			cls := addrClass(r)
			switch {
			case definite > 1:
				s.Violate("C01/duplicate/delivered-twice/"+kind, "%s: the server accepted the message for %s %d times (no reply was lost for those)", m.ID, r, definite)
			case definite >= 1 && reported >= 1:
				s.Violate("C01/duplicate/delivered-and-reported/"+kind, "%s: %s accepted by the server and also reported as failed", m.ID, r)
			case reported > 1:
				s.Violate("C01/report-count/>1/"+kind, "%s: %s named in %d failure reports", m.ID, r, reported)
			case definite == 0 && maybe == 0 && reported == 0:
				s.Violate("C01/lost/"+kind+"/"+cls, "%s: %s (on the wire %q) was neither accepted by the server nor reported as failed; %d transactions carried it", m.ID, r, wf, attempts)
			}
			if attempts > w.sc.MaxTries {
				s.Violate("C01/too-many-attempts/"+kind, "%s: %s was transmitted %d times, max_tries=%d", m.ID, r, attempts, w.sc.MaxTries)
			}
		}
	}
	if left := w.fs.Names(spool); len(left) > 0 && len(s.Violations()) == 0 {
		s.Violate("C01/spool-leftover/"+kind, "spool not empty at quiescence: %v", left)
	}
}
