package qa

import (
	"bufio"
	"bytes"
	"fmt"
	"io"
	"mime"
	"mime/multipart"
	"net/textproto"
	"strings"
)

// Report is a failure report parsed with the standard library only (not the
// go-message code that generated it).
type Report struct {
	Err        string
	MediaType  string
	ReportType string
	Parts      []ReportPart
	PerMsg     textproto.MIMEHeader
	Rcpts      []ReportRcpt
	OrigHeader []byte
}

type ReportPart struct {
	ContentType string
	Data        []byte
}

type ReportRcpt struct {
	AddrType   string
	Addr       string
	Action     string
	Status     string
	Diagnostic string
}

func ParseReport(hdr, body []byte) *Report {
	r := &Report{}
	tp := textproto.NewReader(bufio.NewReader(bytes.NewReader(hdr)))
	mh, err := tp.ReadMIMEHeader()
	if err != nil && err != io.EOF {
		r.Err = "header: " + err.Error()
		return r
	}
	mt, params, err := mime.ParseMediaType(mh.Get("Content-Type"))
	if err != nil {
		r.Err = "content-type: " + err.Error()
		return r
	}
	r.MediaType = mt
	r.ReportType = params["report-type"]
	if params["boundary"] == "" {
		r.Err = "no boundary"
		return r
	}
	mr := multipart.NewReader(bytes.NewReader(body), params["boundary"])
	for {
		p, err := mr.NextRawPart()
		if err == io.EOF {
			break
		}
		if err != nil {
			r.Err = "multipart: " + err.Error()
			return r
		}
		data, err := io.ReadAll(p)
		if err != nil {
			r.Err = "part read: " + err.Error()
			return r
		}
		ct, _, _ := mime.ParseMediaType(p.Header.Get("Content-Type"))
		r.Parts = append(r.Parts, ReportPart{ContentType: ct, Data: data})
	}
	if len(r.Parts) >= 2 {
		// delivery-status: groups of fields separated by empty lines
		br := bufio.NewReader(bytes.NewReader(r.Parts[1].Data))
		first := true
		for {
			if _, err := br.Peek(1); err != nil {
				break
			}
			g, err := textproto.NewReader(br).ReadMIMEHeader()
			if len(g) == 0 {
				if err != nil {
					break
				}
				continue
			}
			if first {
				r.PerMsg = g
				first = false
			} else {
				rr := ReportRcpt{Action: g.Get("Action"), Status: g.Get("Status"), Diagnostic: g.Get("Diagnostic-Code")}
				fr := g.Get("Final-Recipient")
				if i := strings.Index(fr, ";"); i >= 0 {
					rr.AddrType = strings.TrimSpace(fr[:i])
					rr.Addr = strings.TrimSpace(fr[i+1:])
				} else {
					rr.Addr = fr
				}
				r.Rcpts = append(r.Rcpts, rr)
			}
			if err != nil {
				break
			}
		}
	}
	if len(r.Parts) >= 3 {
		r.OrigHeader = r.Parts[2].Data
	}
	return r
}

func (r *Report) String() string {
	var rc []string
	for _, x := range r.Rcpts {
		rc = append(rc, fmt.Sprintf("%s(%s;%s)", x.Addr, x.Status, x.Diagnostic))
	}
	return fmt.Sprintf("%s/%s parts=%d rcpts=%v err=%q", r.MediaType, r.ReportType, len(r.Parts), rc, r.Err)
}
