// Package qa is the queue world: the real queue.Queue + TimeWheel + buffer +
// dsn on the simulated disk and fake clock, over scripted downstream and
// bounce targets.
package qa

import (
	"bufio"
	"bytes"
	"fmt"
	"strings"
	"time"

	"github.com/emersion/go-message/textproto"
	"github.com/foxcpp/maddy/internal/verifsim/actors"
	"github.com/foxcpp/maddy/internal/verifsim/simrt"
)

type Msg struct {
	ID          string
	From        string
	// OrigFrom: the sender as the client spelled it (MsgMetadata.OriginalFrom);
	// differs from From when the accepting endpoint normalised the address or a
	// modifier rewrote the sender before the queue
	OrigFrom string
	Rcpts       []string
	Hdr         textproto.Header
	HdrBytes    []byte
	Body        []byte
	UTF8        bool
	RequireTLS  bool
	TLSOverride bool
	OrigRcpts   map[string]string
	AbortIt     bool
	Plans       []*actors.StagePlan

	// progress, written by the producer task
	bodyDone bool
	bodyErr  string
	acked    bool
	aborted  bool
	ackInc   int
	ackAt    time.Duration
}

type Scenario struct {
	Msgs        []*Msg
	MaxTries    int
	Retry       time.Duration
	Scale       float64
	Parallel    int
	PostInit    time.Duration
	Partial     bool
	Bounce      bool
	Concurrent  bool // producers run as concurrent tasks
	FaultNum    int  // per-stage failure probability FaultNum/16
	BouncePlans []*actors.StagePlan
	// Chain (C18): failure reports are additionally routed into a second queue
	// with a bounce pipeline of its own, whose target fails per ChainPlans
	Chain      bool
	ChainPlans []*actors.StagePlan
}

var addrPool = []string{
	"alice@example.org",
	"bob@example.com",
	"carol@xn--e1aybc.example",
	"dave@тест.example",
	"üser@example.org",
	"Alice@Example.ORG",
	"\"quoted local\"@example.net",
	"erin+tag@sub.example.org",
}

var senderPool = []string{
	"sender@origin.example",
	"отправитель@origin.example",
	"s@xn--e1aybc.example",
}

func (sc *Scenario) Shape() string {
	var sb strings.Builder
	fmt.Fprintf(&sb, "m%d t%d r%v s%v p%d pi%v pa%v b%v c%v f%d ch%v|", len(sc.Msgs), sc.MaxTries, sc.Retry, sc.Scale, sc.Parallel, sc.PostInit, sc.Partial, sc.Bounce, sc.Concurrent, sc.FaultNum, sc.Chain)
	for _, m := range sc.Msgs {
		fmt.Fprintf(&sb, "[%d from=%v ab=%v", len(m.Rcpts), m.From != "", m.AbortIt)
		for _, p := range m.Plans {
			fmt.Fprintf(&sb, " %s", planSig(p, m.Rcpts))
		}
		sb.WriteString("]")
	}
	return sb.String()
}

func planSig(p *actors.StagePlan, rcpts []string) string {
	var sb strings.Builder
	fmt.Fprintf(&sb, "S%d", p.Start)
	for _, r := range rcpts {
		fmt.Fprintf(&sb, "r%d", p.Rcpt[r])
	}
	fmt.Fprintf(&sb, "B%d", p.Body)
	for _, r := range rcpts {
		fmt.Fprintf(&sb, "s%d", p.Status[r])
	}
	fmt.Fprintf(&sb, "C%d", p.Commit)
	return sb.String()
}

func genOutcome(t *simrt.Tape, st string, num int) actors.Outcome {
	if !t.Bool(st, num, 16) {
		return actors.OK
	}
	return actors.Outcome(1 + t.Choose(st, 3))
}

func genPlan(t *simrt.Tape, st string, rcpts []string, num int) *actors.StagePlan {
	p := &actors.StagePlan{Rcpt: map[string]actors.Outcome{}, Status: map[string]actors.Outcome{}}
	p.Var = t.Choose(st, 12)
	// start failures are rarer than the others so that later stages get reached
	p.Start = genOutcome(t, st, num/2)
	for _, r := range rcpts {
		p.Rcpt[r] = genOutcome(t, st, num)
	}
	p.Body = genOutcome(t, st, num/2)
	for _, r := range rcpts {
		p.Status[r] = genOutcome(t, st, num)
	}
	p.Commit = genOutcome(t, st, num/2)
	p.Abort = genOutcome(t, st, num/2)
	return p
}

var fieldNames = []string{"Subject", "From", "To", "X-Custom", "Received", "Message-Id", "Date", "X-Empty", "Content-Type", "DKIM-Signature"}

// GenHeader draws raw header bytes (folding, repeats, 8-bit, long and empty
// values) and parses them the way the SMTP endpoint does.
func GenHeader(t *simrt.Tape, st string) (textproto.Header, []byte) {
	for attempt := 0; attempt < 4; attempt++ {
		var raw bytes.Buffer
		n := 1 + t.Choose(st, 6)
		for i := 0; i < n; i++ {
			name := fieldNames[t.Choose(st, len(fieldNames))]
			raw.WriteString(name)
			raw.WriteString(":")
			switch t.Choose(st, 7) {
			case 0:
				raw.WriteString(" simple value")
			case 1:
				// folded
				raw.WriteString(" first part\r\n\tsecond part\r\n  third part")
			case 2:
				// empty
			case 3:
				raw.WriteString(" " + strings.Repeat("long-", 20+t.Choose(st, 150)))
			case 4:
				raw.WriteString(" 8bit \xe9\xe8 and utf8 тест ✓")
			case 5:
				raw.WriteString("no-leading-space  trailing-space  ")
			default:
				raw.WriteString(" =?utf-8?q?encoded=20word?= <a@b.example>;\r\n param=\"x y\"")
			}
			raw.WriteString("\r\n")
		}
		if t.Choose(st, 40) == 0 {
			// a header larger than a megabyte (many long fields), followed by
			// a last short field so that a cut is visible in every field count
			for i := 0; i < 310; i++ {
				fmt.Fprintf(&raw, "X-Pad-%03d: %s\r\n", i, strings.Repeat("p", 3400))
			}
			raw.WriteString("X-Last: end\r\n")
		}
		raw.WriteString("\r\n")
		h, err := textproto.ReadHeader(bufio.NewReader(bytes.NewReader(raw.Bytes())))
		if err != nil {
			continue
		}
		var out bytes.Buffer
		textproto.WriteHeader(&out, h)
		return h, out.Bytes()
	}
	h := textproto.Header{}
	h.Add("Subject", "fallback")
	var out bytes.Buffer
	textproto.WriteHeader(&out, h)
	return h, out.Bytes()
}

// GenBody draws a message body (binary, dot lines, empty, larger).
func GenBody(t *simrt.Tape, st string) []byte {
	switch t.Choose(st, 8) {
	case 0:
		return nil
	case 1:
		return []byte("hello\r\n")
	case 2:
		return []byte(".leading dot\r\n..two dots\r\n.\r\ntrailing space \r\n\r\n\r\n")
	case 3:
		// binary
		n := 1 + t.Choose(st, 300)
		b := make([]byte, n)
		for i := range b {
			b[i] = byte(t.Choose(st, 256))
		}
		return b
	case 4:
		return bytes.Repeat([]byte("0123456789abcdef0123456789abcdef0123456789abcdef0123456789abcde\r\n"), 1+t.Choose(st, 40))
	case 5:
		// large enough to cross io.Copy's buffer size
		return bytes.Repeat([]byte("L"), 33000+t.Choose(st, 40000))
	case 6:
		return []byte("no final newline")
	default:
		return []byte("line one\r\nline two\r\n")
	}
}

func asciiLocal(pool []string) []string {
	var out []string
	for _, a := range pool {
		i := strings.LastIndex(a, "@")
		ok := true
		for j := 0; j < i; j++ {
			if a[j] >= 0x80 {
				ok = false
			}
		}
		if ok {
			out = append(out, a)
		}
	}
	return out
}

func pickDistinct(t *simrt.Tape, st string, pool []string, n int) []string {
	idx := make([]int, len(pool))
	for i := range idx {
		idx[i] = i
	}
	var out []string
	for i := 0; i < n && len(idx) > 0; i++ {
		k := t.Choose(st, len(idx))
		out = append(out, pool[idx[k]])
		idx = append(idx[:k], idx[k+1:]...)
	}
	return out
}

// Gen draws a scenario. prof tunes the distribution per property.
func Gen(t *simrt.Tape, prof string) *Scenario {
	const st = "scen"
	sc := &Scenario{}
	nm := 1 + t.Choose(st, 3)
	if prof == "c12" && t.Choose(st, 4) == 0 {
		nm = 4 // up to four concurrent producers
	}
	sc.MaxTries = 1 + t.Choose(st, 4)
	sc.Retry = []time.Duration{0, time.Second, 15 * time.Minute}[t.Choose(st, 3)]
	sc.Scale = []float64{1, 1.25, 2}[t.Choose(st, 3)]
	sc.Parallel = []int{1, 2, 16}[t.Choose(st, 3)]
	sc.PostInit = []time.Duration{0, 10 * time.Second}[t.Choose(st, 2)]
	sc.Partial = t.Choose(st, 2) == 1
	sc.Bounce = t.Choose(st, 6) != 0
	sc.Concurrent = t.Choose(st, 2) == 1
	sc.FaultNum = []int{0, 2, 4, 8}[t.Choose(st, 4)]
	if prof == "c02" || prof == "c12" || prof == "c18" || prof == "c16" {
		sc.Bounce = true
	}
	if (prof == "c18" || prof == "c16") && sc.FaultNum < 4 {
		sc.FaultNum = 8
	}
	for i := 0; i < nm; i++ {
		m := &Msg{ID: fmt.Sprintf("msg%d", i+1)}
		// a message without SMTPUTF8 cannot carry a non-ASCII local part
		// (the endpoint refuses it); IDN domains are fine in either case.
		m.UTF8 = t.Choose(st, 2) == 1
		spool, apool := senderPool, addrPool
		if !m.UTF8 {
			spool, apool = asciiLocal(senderPool), asciiLocal(addrPool)
		}
		m.From = spool[t.Choose(st, len(spool))]
		if prof != "c02" && prof != "c12" && t.Choose(st, 6) == 0 {
			m.From = ""
		}
		m.OrigFrom = m.From
		if (prof == "c18" || prof == "c10") && m.From != "" && t.Choose(st, 3) == 0 {
			// what the client typed differs from the envelope sender the queue
			// is given: another spelling (the endpoint normalises the domain)
			// or another address (a sender modifier rewrote it)
			if i := strings.LastIndex(m.From, "@"); i >= 0 && t.Choose(st, 2) == 0 {
				m.OrigFrom = m.From[:i+1] + strings.ToUpper(m.From[i+1:])
			} else {
				m.OrigFrom = "typed-by-client@elsewhere.example"
			}
		}
		nr := 1 + t.Choose(st, 4)
		if prof == "c02" && nr > 3 {
			nr = 3
		}
		m.Rcpts = pickDistinct(t, st, apool, nr)
		m.RequireTLS = t.Choose(st, 4) == 0
		m.TLSOverride = t.Choose(st, 4) == 0
		if t.Choose(st, 3) == 0 {
			m.OrigRcpts = map[string]string{}
			for j, r := range m.Rcpts {
				if t.Choose(st, 2) == 0 {
					m.OrigRcpts[r] = fmt.Sprintf("orig%d-%s@alias.example", j, m.ID)
				}
			}
			if prof == "c18" && len(m.Rcpts) >= 2 && t.Choose(st, 3) == 0 {
				// overlapping rewrites: the client named both an alias and the
				// address it is rewritten to, which is rewritten itself
				// (alias -> Rcpts[0], Rcpts[0] -> Rcpts[1]); every recipient is
				// reported under the address one step back, not at the end of
				// the chain
				m.OrigRcpts[m.Rcpts[0]] = fmt.Sprintf("orig0-%s@alias.example", m.ID)
				m.OrigRcpts[m.Rcpts[1]] = m.Rcpts[0]
			}
		}
		m.AbortIt = (prof == "c02" || prof == "c12" || prof == "c01") && t.Choose(st, 6) == 0
		if prof == "c10" || prof == "c18" || prof == "c02" {
			m.Hdr, m.HdrBytes = GenHeader(t, "hdr")
			m.Body = GenBody(t, "body")
		} else {
			h := textproto.Header{}
			h.Add("Subject", "test "+m.ID)
			var out bytes.Buffer
			textproto.WriteHeader(&out, h)
			m.Hdr, m.HdrBytes = h, out.Bytes()
			m.Body = []byte("body of " + m.ID + "\r\n")
		}
		for a := 0; a < sc.MaxTries; a++ {
			pl := genPlan(t, "plan", m.Rcpts, sc.FaultNum)
			if prof == "c16" {
				// the whole range of error constructions (wrapping patterns)
				pl.Var = t.Choose("plan", 56)
			}
			m.Plans = append(m.Plans, pl)
		}
		sc.Msgs = append(sc.Msgs, m)
	}
	// plans for the bounce sink (only C18 makes report delivery fail)
	for i := 0; i < 8; i++ {
		if prof == "c18" {
			sc.BouncePlans = append(sc.BouncePlans, genPlan(t, "bplan", nil, 3))
		} else {
			sc.BouncePlans = append(sc.BouncePlans, &actors.StagePlan{})
		}
	}
	if prof == "c18" {
		sc.Chain = t.Choose("scen", 2) == 1
		for i := 0; i < 8; i++ {
			sc.ChainPlans = append(sc.ChainPlans, genPlan(t, "cplan", nil, 10))
		}
	}
	return sc
}
