package qa

import (
	"bytes"
	"errors"
	"fmt"
	"sort"
	"strings"

	"golang.org/x/net/idna"

	"github.com/foxcpp/maddy/framework/exterrors"
	"github.com/foxcpp/maddy/internal/verifsim/actors"
	"github.com/foxcpp/maddy/internal/verifsim/simrt"
)

func isASCII(s string) bool {
	for i := 0; i < len(s); i++ {
		if s[i] >= 0x80 {
			return false
		}
	}
	return true
}

// canonAddr reduces an address to a spelling-independent form for matching
// report entries: local part verbatim, domain as lower-case U-labels. A report
// may legitimately spell the domain of the address the sender used as A-labels
// (message without SMTPUTF8) or U-labels (with SMTPUTF8).
func canonAddr(a string) string {
	i := strings.LastIndex(a, "@")
	if i < 0 {
		return a
	}
	dom, err := idna.ToUnicode(a[i+1:])
	if err != nil {
		dom = a[i+1:]
	}
	return a[:i+1] + strings.ToLower(dom)
}

// reportName is the (canonical) address under which recipient r of m must
// appear in a failure report: the address the sender originally used.
func reportName(m *Msg, r string) string {
	if o := m.OrigRcpts[r]; o != "" {
		r = o
	}
	return canonAddr(r)
}

type rcptAttempt struct {
	tx        *actors.TxRecord
	presented bool
	set       []actors.Outcome // attributable failures in this attempt
	stages    []string         // where each of them happened (MkErr's "where")
	delivered bool
}

func contains(xs []string, x string) bool {
	for _, y := range xs {
		if y == x {
			return true
		}
	}
	return false
}

func anyRetriable(set []actors.Outcome) bool {
	for _, o := range set {
		if o.Retriable() {
			return true
		}
	}
	return false
}
func anyPerm(set []actors.Outcome) bool {
	for _, o := range set {
		if o == actors.Perm {
			return true
		}
	}
	return false
}

// attempt computes what happened to recipient r in transaction tx.
func attempt(tx *actors.TxRecord, r string) rcptAttempt {
	a := rcptAttempt{tx: tx}
	if !tx.Started {
		a.set = []actors.Outcome{tx.StartRes}
		a.stages = []string{"start"}
		return a
	}
	if !contains(tx.Rcpts, r) {
		return a
	}
	a.presented = true
	if tx.RcptRes[r] != actors.OK {
		a.set = []actors.Outcome{tx.RcptRes[r]}
		a.stages = []string{"rcpt"}
		return a
	}
	if tx.BodyCall {
		b, where := tx.BodyRes, "body"
		if tx.Partial {
			b, where = tx.Statuses[r], "status"
		}
		if b != actors.OK {
			a.set = append(a.set, b)
			a.stages = append(a.stages, where)
		}
	}
	if tx.Commits > 0 && tx.CommitRes != actors.OK {
		a.set = append(a.set, tx.CommitRes)
		a.stages = append(a.stages, "commit")
	}
	a.delivered = tx.Delivered(r)
	return a
}

func (w *World) txsOf(m *Msg) []*actors.TxRecord {
	var out []*actors.TxRecord
	for _, tx := range w.tgt.Records() {
		if actors.BaseID(tx.MsgID) == m.ID {
			out = append(out, tx)
		}
	}
	return out
}

type reportRec struct {
	tx  *actors.TxRecord
	rep *Report
	m   *Msg
}

func (w *World) reports() []reportRec {
	var out []reportRec
	for _, tx := range w.sink.Records() {
		rr := reportRec{tx: tx}
		if tx.BodyCall {
			rr.rep = ParseReport(tx.Header, tx.Body)
			if rr.rep.PerMsg != nil {
				rr.m = w.msgByID(rr.rep.PerMsg.Get("X-Maddy-Msgid"))
			}
		}
		out = append(out, rr)
	}
	return out
}

func (w *World) oracles() {
	s := w.s
	if len(s.Violations()) > 0 {
		return
	}
	for _, p := range s.Panics() {
		if p.Func == "HARNESS" {
			continue
		}
		switch w.prop {
		case "C12":
			s.Violate("C12/panic/"+p.Func, "task %s panicked: %s", p.Task, p.Value)
		case "C02":
			s.Violate("C02/recovery-panic/"+p.Func, "task %s panicked: %s", p.Task, p.Value)
		default:
			s.Violate(w.prop+"/panic/"+p.Func, "task %s panicked: %s", p.Task, p.Value)
		}
	}
	switch w.prop {
	case "C01":
		// after an injected write error the queue could not record its
		// progress: repeating work is the legitimate outcome then (at least
		// once), losing a recipient never is
		w.oracleConservation("C01", s.Stats()["fault_fs_write"] > 0)
	case "C02":
		w.oracleCrash()
	case "C10":
		w.oracleBytes()
		if len(s.Violations()) == 0 {
			w.oraclePending()
		}
	case "C12":
		w.oracleSched()
	case "C18":
		w.oracleReports()
	case "C16":
		w.oracleCodes()
	}
}

// oracleConservation: one terminal outcome per recipient + retry discipline.
// atLeastOnce relaxes "exactly one" to "at least one" (crash windows).
func (w *World) oracleConservation(pfx string, atLeastOnce bool) {
	s := w.s
	sc := w.sc
	reps := w.reports()
	key := func(rule string) string {
		if pfx == "C12" {
			switch {
			case strings.HasPrefix(rule, "duplicate"), strings.HasPrefix(rule, "too-many"), strings.HasPrefix(rule, "report-count/>1"), strings.HasPrefix(rule, "retry-after"):
				return "C12/dispatch-count/>1"
			case strings.HasPrefix(rule, "lost"), strings.HasPrefix(rule, "report-count/0"):
				return "C12/lost-on-shutdown"
			}
		}
		return pfx + "/" + rule
	}
	for _, m := range sc.Msgs {
		txs := w.txsOf(m)
		if !m.acked {
			if m.aborted && len(txs) > 0 {
				s.Violate(key("aborted-delivered"), "message %s was aborted by its producer but was handed downstream (%d transactions)", m.ID, len(txs))
			}
			if !m.aborted && m.bodyErr == "" && w.crashes == 0 && pfx == "C01" {
				if w.hang != "" {
					s.Violate(key("producer-stuck"), "the hand-off of message %s to the queue never returned", m.ID)
					continue
				}
				simrt.Harnessf("message %s neither acked nor aborted", m.ID)
			}
			continue
		}
		expectReport := m.From != "" && sc.Bounce
		for _, r := range m.Rcpts {
			delivered := 0
			attempts := 0
			var prev *rcptAttempt
			terminalPerm := false
			sawPerm := false
			for _, tx := range txs {
				a := attempt(tx, r)
				// a failed Start names no recipients: r took part in it only if
				// it was certainly still pending (an earlier attempt that left r
				// with a permanent failure among others may have ended it)
				implicit := !tx.Started && delivered == 0 && !terminalPerm && !sawPerm && attempts < sc.MaxTries
				if !a.presented && !implicit {
					continue
				}
				if a.presented {
					if delivered > 0 && !atLeastOnce {
						s.Violate(key("retry-after-terminal/delivered"), "%s: %s presented again in tx%d after it had been delivered", m.ID, r, tx.N)
					}
					if prev != nil && len(prev.set) > 0 && !anyRetriable(prev.set) && !atLeastOnce {
						s.Violate(key("retry-after-terminal/permanent"), "%s: %s presented again in tx%d after a permanent failure in tx%d", m.ID, r, tx.N, prev.tx.N)
					}
				}
				attempts++
				if attempts > sc.MaxTries && !atLeastOnce {
					s.Violate(key("too-many-attempts"), "%s: %s attempted %d times, max_tries=%d", m.ID, r, attempts, sc.MaxTries)
				}
				if a.delivered {
					delivered++
				}
				if len(a.set) > 0 && !anyRetriable(a.set) {
					terminalPerm = true
				}
				if anyPerm(a.set) {
					sawPerm = true
				}
				aa := a
				prev = &aa
			}
			reported := 0
			name := reportName(m, r)
			for _, rr := range reps {
				if rr.rep == nil || rr.m != m {
					continue
				}
				for _, x := range rr.rep.Rcpts {
					if canonAddr(x.Addr) == name {
						reported++
					}
				}
			}
			cls := addrClass(r)
			kind := "atomic"
			if sc.Partial {
				kind = "partial"
			}
			switch {
			case delivered > 1 && !atLeastOnce:
				s.Violate(key("duplicate/delivered-twice"), "%s: %s committed downstream %d times", m.ID, r, delivered)
			case delivered >= 1 && reported >= 1 && !atLeastOnce:
				s.Violate(key("duplicate/delivered-and-reported"), "%s: %s delivered %d times and reported failed %d times", m.ID, r, delivered, reported)
			case reported > 1 && !atLeastOnce:
				s.Violate(key("report-count/>1"), "%s: %s named in %d failure reports", m.ID, r, reported)
			case delivered == 0 && reported == 0:
				stage := "none"
				if prev != nil {
					stage = lastStage(prev)
				}
				if expectReport {
					s.Violate(key("lost/"+kind+"/"+stage+"/"+cls), "%s: %s was neither delivered nor reported (attempts=%d, last attempt: %s)", m.ID, r, attempts, descAttempt(prev))
				} else {
					// no report possible: the recipient must at least have
					// failed terminally
					term := prev != nil && len(prev.set) > 0 && (sawPerm || attempts >= sc.MaxTries)
					if !term {
						s.Violate(key("lost/"+kind+"/"+stage+"/"+cls), "%s: %s dropped without terminal failure (attempts=%d, last attempt: %s)", m.ID, r, attempts, descAttempt(prev))
					}
				}
			case reported >= 1 && !expectReport:
				s.Violate(key("report-count/unexpected"), "%s: report for %s although sender is null or no bounce pipeline", m.ID, r)
			}
		}
	}
	left := w.fs.Names(spool)
	if atLeastOnce {
		// the debris of the failed write itself
		var keep []string
		for _, n := range left {
			if !strings.HasSuffix(n, ".meta.new") {
				keep = append(keep, n)
			}
		}
		left = keep
	}
	if len(left) > 0 && len(s.Violations()) == 0 {
		s.Violate(key("spool-leftover"), "spool not empty at quiescence: %v", left)
	}
}

func lastStage(a *rcptAttempt) string {
	tx := a.tx
	switch {
	case !tx.Started:
		return "start"
	case a.presented && tx.RcptRes[contextRcpt(a)] != actors.OK:
		return "rcpt"
	case tx.Commits > 0 && tx.CommitRes != actors.OK:
		return "commit"
	case tx.BodyCall && tx.Partial:
		return "status"
	case tx.BodyCall:
		return "body"
	}
	return "other"
}

func contextRcpt(a *rcptAttempt) string {
	// the attempt struct does not keep r; stage classification falls back to
	// the set: a single-element set from a failed AddRcpt
	for _, r := range a.tx.Rcpts {
		if a.tx.RcptRes[r] != actors.OK && len(a.set) == 1 && a.set[0] == a.tx.RcptRes[r] {
			return r
		}
	}
	return ""
}

func descAttempt(a *rcptAttempt) string {
	if a == nil {
		return "never attempted"
	}
	return fmt.Sprintf("tx%d started=%v rcpts=%s body=%v/%v commit=%d/%v abort=%d failures=%v", a.tx.N, a.tx.Started, fmtRes(a.tx), a.tx.BodyCall, a.tx.BodyRes, a.tx.Commits, a.tx.CommitRes, a.tx.Aborts, a.set)
}

func addrClass(r string) string {
	i := strings.LastIndex(r, "@")
	if i < 0 {
		return "other"
	}
	switch {
	case !isASCII(r[:i]):
		return "utf8-local"
	case !isASCII(r[i:]):
		return "idn"
	case strings.Contains(r[i:], "xn--"):
		return "alabel"
	case r != strings.ToLower(r):
		return "case"
	}
	return "ascii"
}

// ---------------------------------------------------------------- C02

func (w *World) oracleCrash() {
	s := w.s
	reps := w.reports()
	for _, n := range w.fs.Names(spool) {
		if strings.HasSuffix(n, ".meta_broken") {
			s.Violate("C02/broken-marked", "spool contains %s", n)
		}
	}
	model := "P"
	if w.fs.Model == 1 {
		model = "S"
	}
	before := "none"
	if len(w.crashOps) > 0 {
		before = strings.Fields(w.crashOps[0])[0]
	}
	for _, tx := range w.tgt.Records() {
		m := w.msgByID(tx.MsgID)
		if m == nil {
			s.Violate("C02/foreign-delivery", "transaction tx%d for unknown message id %q", tx.N, tx.MsgID)
			continue
		}
		for _, r := range tx.Rcpts {
			if !contains(m.Rcpts, r) {
				s.Violate("C02/foreign-delivery", "tx%d of %s presents %q which is not a recipient of the stored message", tx.N, m.ID, r)
			}
		}
		if m.aborted {
			s.Violate("C02/aborted-delivered", "message %s was aborted before the stop, yet tx%d (incarnation %d) handed it downstream", m.ID, tx.N, tx.Inc)
		}
		// surviving means surviving with its content
		if m.acked && tx.BodyCall && tx.BodyErr == "" && (!bytes.Equal(tx.Body, m.Body) || !bytes.Equal(tx.Header, m.HdrBytes)) {
			s.Violate("C02/acked-content-lost/"+model+"/"+before, "message %s was accepted before the stop; tx%d (incarnation %d) hands it downstream with different content (header %d/%d bytes, body %d/%d bytes); crashes=%v", m.ID, tx.N, tx.Inc, len(tx.Header), len(m.HdrBytes), len(tx.Body), len(m.Body), w.crashOps)
		}
	}
	for _, m := range w.sc.Msgs {
		txs := w.txsOf(m)
		if !m.acked {
			continue
		}
		for _, r := range m.Rcpts {
			delivered, reported := 0, 0
			firstDelivered := -1
			for i, tx := range txs {
				if tx.Delivered(r) {
					delivered++
					if firstDelivered < 0 {
						firstDelivered = i
					}
				}
			}
			name := reportName(m, r)
			for _, rr := range reps {
				if rr.rep == nil || rr.m != m || rr.tx.Commits == 0 {
					continue
				}
				for _, x := range rr.rep.Rcpts {
					if canonAddr(x.Addr) == name {
						reported++
					}
				}
			}
			if delivered == 0 && reported == 0 {
				s.Violate("C02/acked-lost/"+model+"/"+before, "message %s was accepted (incarnation %d) before the stop; recipient %s was neither delivered nor reported after restart; crashes=%v spool=%v", m.ID, m.ackInc, r, w.crashOps, w.fs.Names(spool))
			}
			// within one incarnation (no stop in between) the queue knows what it
			// has done: the same recipient is not handed downstream twice
			perInc := map[int]int{}
			for _, tx := range txs {
				if tx.Delivered(r) {
					perInc[tx.Inc]++
					if perInc[tx.Inc] == 2 {
						s.Violate("C02/duplicate-within-incarnation", "%s: %s was committed downstream twice by incarnation %d (second time in tx%d) without a stop in between; crashes=%v", m.ID, r, tx.Inc, tx.N, w.crashOps)
					}
				}
			}
			// not re-sent once a later attempt had begun
			if firstDelivered >= 0 {
				later := false
				for j := firstDelivered + 1; j < len(txs); j++ {
					tx := txs[j]
					if tx.Inc == txs[firstDelivered].Inc && tx.Started {
						later = true
					}
					if later && tx.Inc > txs[firstDelivered].Inc && contains(tx.Rcpts, r) {
						s.Violate("C02/resent-after-later-attempt", "%s: %s was delivered in tx%d, a later attempt began before the stop, yet tx%d after restart presents it again", m.ID, r, txs[firstDelivered].N, tx.N)
					}
				}
			}
		}
	}
	if len(s.Violations()) == 0 && w.crashes == 0 {
		// no crash fired (crash point beyond the last operation): strict model
		w.oracleConservation("C02", false)
	}
	if left := w.fs.Names(spool); len(left) > 0 {
		// debris of interrupted operations (e.g. *.meta.new) is not covered by
		// the statement; counted as an observation only
		s.StatN("spool_debris_files", len(left))
	}
}

// ---------------------------------------------------------------- C10

func mapsEqual(a, b map[string]string) bool {
	if len(a) != len(b) {
		return false
	}
	for k, v := range a {
		if b[k] != v {
			return false
		}
	}
	return true
}

func (w *World) oracleBytes() {
	s := w.s
	if w.credLeak != "" {
		s.Violate("C10/credential-on-disk", "the authentication password was written to %s", w.credLeak)
	}
	seen := map[string]int{}
	for _, tx := range w.tgt.Records() {
		m := w.msgByID(tx.MsgID)
		if m == nil {
			continue
		}
		seen[m.ID]++
		when := "first"
		if tx.Inc > m.ackInc && m.acked {
			when = "restart"
		} else if seen[m.ID] > 1 {
			when = "retry"
		}
		if !m.acked {
			// never acknowledged to its producer (crash before the hand-off
			// returned): it may be delivered or not, but never with content
			// nobody submitted
			if tx.BodyCall && tx.BodyErr == "" && (!bytes.Equal(tx.Body, m.Body) || !bytes.Equal(tx.Header, m.HdrBytes)) {
				s.Violate("C10/body-bytes/unacknowledged", "%s tx%d: the message was never acknowledged to its producer, yet it was handed downstream with different content (header %d/%d bytes, body %d/%d bytes); crashes=%v", m.ID, tx.N, len(tx.Header), len(m.HdrBytes), len(tx.Body), len(m.Body), w.crashOps)
			}
			continue
		}
		if tx.From != m.From {
			s.Violate("C10/envelope/sender/"+when, "%s tx%d: sender %q, accepted %q", m.ID, tx.N, tx.From, m.From)
		}
		for _, r := range tx.Rcpts {
			if !contains(m.Rcpts, r) {
				s.Violate("C10/envelope/recipient/"+when, "%s tx%d: recipient %q was never accepted", m.ID, tx.N, r)
			}
		}
		if seen[m.ID] == 1 && tx.Started && w.crashes == 0 {
			if strings.Join(tx.Rcpts, ",") != strings.Join(m.Rcpts, ",") {
				s.Violate("C10/envelope/recipient/"+when, "%s tx%d: first attempt presents %v, accepted %v", m.ID, tx.N, tx.Rcpts, m.Rcpts)
			}
		}
		if !tx.BodyCall {
			continue
		}
		mt := tx.MetaAtBody
		if mt.SMTPOpts.UTF8 != m.UTF8 {
			s.Violate("C10/envelope/smtputf8/"+when, "%s tx%d: SMTPUTF8=%v, accepted %v", m.ID, tx.N, mt.SMTPOpts.UTF8, m.UTF8)
		}
		if mt.SMTPOpts.RequireTLS != m.RequireTLS {
			s.Violate("C10/envelope/requiretls/"+when, "%s tx%d: REQUIRETLS=%v, accepted %v", m.ID, tx.N, mt.SMTPOpts.RequireTLS, m.RequireTLS)
		}
		if mt.TLSRequireOverride != m.TLSOverride {
			s.Violate("C10/envelope/tls-override/"+when, "%s tx%d: TLS-Required override=%v, accepted %v", m.ID, tx.N, mt.TLSRequireOverride, m.TLSOverride)
		}
		if !mapsEqual(mt.OriginalRcpts, m.OrigRcpts) {
			s.Violate("C10/envelope/original-rcpts/"+when, "%s tx%d: original-recipient map %v, accepted %v", m.ID, tx.N, mt.OriginalRcpts, m.OrigRcpts)
		}
		if mt.OriginalFrom != m.OrigFrom {
			s.Violate("C10/envelope/original-from/"+when, "%s tx%d: original sender %q, accepted %q", m.ID, tx.N, mt.OriginalFrom, m.OrigFrom)
		}
		if tx.BodyErr != "" {
			s.Violate("C10/body-bytes/"+when, "%s tx%d: body handed downstream is unreadable: %s", m.ID, tx.N, tx.BodyErr)
		} else if !bytes.Equal(tx.Body, m.Body) {
			s.Violate("C10/body-bytes/"+when, "%s tx%d: body differs (got %d bytes, accepted %d bytes; first difference at %d)", m.ID, tx.N, len(tx.Body), len(m.Body), firstDiff(tx.Body, m.Body))
		}
		if !bytes.Equal(tx.Header, m.HdrBytes) {
			s.Violate("C10/header-bytes/"+when, "%s tx%d: header differs (got %d bytes, accepted %d bytes; first difference at %d)", m.ID, tx.N, len(tx.Header), len(m.HdrBytes), firstDiff(tx.Header, m.HdrBytes))
		}
	}
}

// oraclePending (C10, runs without crash or injected disk error): "the
// recipients still pending" - a later attempt presents no recipient that an
// earlier attempt delivered or left with permanent failures only.
func (w *World) oraclePending() {
	s := w.s
	if w.crashes > 0 || s.Stats()["fault_fs_write"] > 0 {
		return
	}
	for _, m := range w.sc.Msgs {
		if !m.acked {
			continue
		}
		done := map[string]int{}
		for _, tx := range w.txsOf(m) {
			for _, r := range m.Rcpts {
				a := attempt(tx, r)
				if a.presented && done[r] != 0 {
					s.Violate("C10/envelope/recipient/not-pending", "%s tx%d presents %s, which was settled by tx%d", m.ID, tx.N, r, done[r])
				}
			}
			for _, r := range m.Rcpts {
				a := attempt(tx, r)
				if done[r] == 0 && (a.delivered || (len(a.set) > 0 && !anyRetriable(a.set))) {
					done[r] = tx.N
				}
			}
		}
	}
}

func firstDiff(a, b []byte) int {
	n := len(a)
	if len(b) < n {
		n = len(b)
	}
	for i := 0; i < n; i++ {
		if a[i] != b[i] {
			return i
		}
	}
	return n
}

// ---------------------------------------------------------------- C12

func (w *World) checkShutdownState() {
	s := w.s
	if w.closeRequested && !w.closeReturned {
		w.violateHang("Close did not return")
		return
	}
	if w.prodDone < w.prodTotal {
		w.violateHang(fmt.Sprintf("%d producers still blocked after shutdown; parked=%v", w.prodTotal-w.prodDone, s.ParkedKeys()))
		return
	}
	names := w.fs.Names(spool)
	for _, n := range names {
		if strings.HasSuffix(n, ".meta_broken") {
			s.Violate("C12/broken-marked", "spool contains %s after shutdown", n)
		}
	}
	reps := w.reports()
	for _, m := range w.sc.Msgs {
		if !m.acked {
			continue
		}
		txs := w.txsOf(m)
		pending := false
		for _, r := range m.Rcpts {
			d, rep := 0, 0
			for _, tx := range txs {
				if tx.Delivered(r) {
					d++
				}
			}
			name := reportName(m, r)
			for _, rr := range reps {
				if rr.rep != nil && rr.m == m {
					for _, x := range rr.rep.Rcpts {
						if canonAddr(x.Addr) == name {
							rep++
						}
					}
				}
			}
			if d == 0 && rep == 0 {
				pending = true
			}
		}
		if pending {
			for _, suf := range []string{".meta", ".header", ".body"} {
				if !contains(names, m.ID+suf) {
					s.Violate("C12/lost-on-shutdown", "message %s has recipients without terminal outcome after shutdown but %s%s is not in the spool (%v)", m.ID, m.ID, suf, names)
				}
			}
		}
	}
}

func (w *World) oracleSched() {
	s := w.s
	for _, n := range w.fs.Names(spool) {
		if strings.HasSuffix(n, ".meta_broken") {
			s.Violate("C12/broken-marked", "spool contains %s", n)
		}
	}
	if len(s.Violations()) > 0 {
		return
	}
	// Close waits for attempts in flight and stops everything else: nothing
	// of a closed queue reaches the target afterwards
	for _, tx := range w.tgt.Records() {
		if cs, ok := w.closeStep[tx.Inc]; ok && tx.Step > cs {
			s.Violate("C12/attempt-after-close", "tx%d (%s) was started by incarnation %d at step %d, after that queue's Close had returned (step %d)", tx.N, actors.BaseID(tx.MsgID), tx.Inc, tx.Step, cs)
		}
	}
	// not before its scheduled time
	for _, m := range w.sc.Msgs {
		txs := w.txsOf(m)
		for i := 1; i < len(txs); i++ {
			a, b := txs[i-1], txs[i]
			if a.EndStep == 0 {
				continue
			}
			if a.Inc != b.Inc {
				// across a clean shutdown: what the closed queue left in the
				// spool says when the last attempt was, the restarted queue
				// schedules the retry from that
				if _, clean := w.closeStep[a.Inc]; clean && w.crashes == 0 && b.AtD < a.EndD+w.sc.Retry {
					s.Violate("C12/dispatch-early/after-restart", "%s: attempt tx%d of the restarted queue started at %v, the previous attempt tx%d (before the shutdown) ended at %v, retry delay is at least %v", m.ID, b.N, b.AtD, a.N, a.EndD, w.sc.Retry)
				}
				continue
			}
			if b.AtD < a.EndD+w.sc.Retry && b.Step > a.EndStep {
				s.Violate("C12/dispatch-early", "%s: attempt tx%d started at %v, previous attempt tx%d ended at %v, retry delay is at least %v", m.ID, b.N, b.AtD, a.N, a.EndD, w.sc.Retry)
			}
			if b.Step < a.EndStep {
				s.Violate("C12/dispatch-count/>1", "%s: attempts tx%d and tx%d overlap", m.ID, a.N, b.N)
			}
		}
	}
	w.oracleConservation("C12", false)
}

// ---------------------------------------------------------------- C18

func firstNonASCIILine(b []byte) string {
	for _, ln := range strings.Split(string(b), "\n") {
		if !isASCII(ln) {
			return strings.TrimSpace(ln)
		}
	}
	return ""
}

func trimCRLF(b []byte) []byte { return bytes.TrimRight(b, "\r\n") }

func (w *World) oracleReports() {
	s := w.s
	_ = w.sc
	reps := w.reports()
	perAttempt := map[string]int{}
	for _, rr := range reps {
		tx := rr.tx
		if !tx.Started {
			continue
		}
		if !tx.Closed {
			s.Violate("C18/report-delivery-not-closed", "report transaction dsn%d was neither committed nor aborted", tx.N)
		}
		if tx.From != "" {
			s.Violate("C18/wrong-envelope", "report dsn%d sent with return path %q, want the null address", tx.N, tx.From)
		}
		if !tx.BodyCall {
			continue
		}
		rep := rr.rep
		if rep.Err != "" {
			s.Violate("C18/malformed/parse", "report dsn%d does not parse: %s", tx.N, rep.Err)
			continue
		}
		if rep.MediaType != "multipart/report" || rep.ReportType != "delivery-status" {
			s.Violate("C18/malformed/content-type", "report dsn%d has type %s report-type=%s", tx.N, rep.MediaType, rep.ReportType)
		}
		if len(rep.Parts) != 3 {
			s.Violate("C18/malformed/parts", "report dsn%d has %d parts", tx.N, len(rep.Parts))
			continue
		}
		m := rr.m
		if m == nil {
			s.Violate("C18/malformed/msgid", "report dsn%d names no known message (%v)", tx.N, rep.PerMsg)
			continue
		}
		wantDS, wantHdr := "message/delivery-status", "message/rfc822-headers"
		if m.UTF8 {
			wantDS, wantHdr = "message/global-delivery-status", "message/global-headers"
		}
		if rep.Parts[0].ContentType != "text/plain" || rep.Parts[1].ContentType != wantDS || rep.Parts[2].ContentType != wantHdr {
			s.Violate("C18/malformed/part-types", "report dsn%d part types %s, %s, %s (want text/plain, %s, %s)", tx.N, rep.Parts[0].ContentType, rep.Parts[1].ContentType, rep.Parts[2].ContentType, wantDS, wantHdr)
		}
		if !m.UTF8 && !isASCII(string(rep.Parts[1].Data)) {
			// RFC 3464 fields of a report for a message without SMTPUTF8
			// (message/delivery-status, address type rfc822) are 7-bit
			s.Violate("C18/malformed/non-ascii-status-part", "report dsn%d for a message without SMTPUTF8 has non-ASCII bytes in its message/delivery-status part: %q", tx.N, firstNonASCIILine(rep.Parts[1].Data))
		}
		if m.From == "" {
			s.Violate("C18/report-for-null-sender", "report dsn%d generated for %s whose sender is the null address", tx.N, m.ID)
			continue
		}
		if len(tx.Rcpts) != 1 || tx.Rcpts[0] != m.From {
			s.Violate("C18/wrong-envelope", "report dsn%d addressed to %v, want [%s]", tx.N, tx.Rcpts, m.From)
		}
		if !bytes.Equal(trimCRLF(rep.OrigHeader), trimCRLF(m.HdrBytes)) {
			s.Violate("C18/original-header", "report dsn%d: third part differs from the original header (first difference at %d)", tx.N, firstDiff(rep.OrigHeader, m.HdrBytes))
		}
		// the attempt this report belongs to: latest downstream tx of m begun before it
		var at *actors.TxRecord
		txs := w.txsOf(m)
		for _, d := range txs {
			if d.Step <= tx.Step {
				at = d
			}
		}
		if at == nil {
			s.Violate("C18/recipient-set", "report dsn%d for %s precedes any delivery attempt", tx.N, m.ID)
			continue
		}
		k := fmt.Sprintf("%s/%d", m.ID, at.N)
		perAttempt[k]++
		if perAttempt[k] > 1 {
			s.Violate("C18/report-retried", "more than one report transaction for attempt tx%d of %s", at.N, m.ID)
		}
		// expected sets
		must, may := map[string]string{}, map[string]string{}
		for _, r := range m.Rcpts {
			switch w.reportDuty(m, r, at) {
			case 2:
				must[reportName(m, r)] = r
			case 1:
				may[reportName(m, r)] = r
			}
		}
		got := map[string]bool{}
		for _, x := range rep.Rcpts {
			ca := canonAddr(x.Addr)
			if got[ca] {
				s.Violate("C18/recipient-set", "report dsn%d lists %s twice", tx.N, x.Addr)
			}
			got[ca] = true
			r, ok := must[ca]
			if !ok {
				r, ok = may[ca]
			}
			if !ok {
				for _, rr := range m.Rcpts {
					if ca == canonAddr(rr) && m.OrigRcpts[rr] != "" {
						s.Violate("C18/rewritten-address-disclosed", "report dsn%d lists %s, the address %s was rewritten to", tx.N, x.Addr, m.OrigRcpts[rr])
					}
				}
				s.Violate("C18/recipient-set", "report dsn%d (attempt tx%d of %s) lists %s which did not fail terminally in that attempt; must=%v may=%v", tx.N, at.N, m.ID, x.Addr, keys(must), keys(may))
				continue
			}
			wantType := "rfc822"
			if m.UTF8 {
				wantType = "utf8"
			}
			if x.AddrType != wantType {
				s.Violate("C18/malformed/address-type", "report dsn%d: Final-Recipient type %q for a message with SMTPUTF8=%v", tx.N, x.AddrType, m.UTF8)
			}
			if x.Action != "failed" {
				s.Violate("C18/malformed/action", "report dsn%d: action %q", tx.N, x.Action)
			}
			// status coherent with the last failure of r
			a := attempt(at, r)
			ok = false
			for _, o := range a.set {
				cls := "5"
				if o.Retriable() {
					cls = "4"
				}
				if strings.HasPrefix(x.Status, cls+".") {
					ok = true
				}
			}
			if !ok {
				s.Violate("C18/status-mismatch", "report dsn%d: %s has Status %s but its failures in that attempt were %v", tx.N, x.Addr, x.Status, a.set)
			}
			// ... and, when the one failure of r in that attempt carried SMTP
			// codes, these are the codes the report gives ("last status codes")
			if len(a.set) == 1 && len(a.stages) == 1 {
				var se *exterrors.SMTPError
				if errors.As(actors.MkErr(a.set[0], at.Plan.Var, a.stages[0]), &se) {
					want := fmt.Sprintf("%d.%d.%d", se.EnhancedCode[0], se.EnhancedCode[1], se.EnhancedCode[2])
					if x.Status != want {
						s.Violate("C18/status-code-lost", "report dsn%d: %s failed with %d %s at %s, the report says Status %s (Diagnostic-Code %q)", tx.N, x.Addr, se.Code, want, a.stages[0], x.Status, x.Diagnostic)
					}
					if f := strings.Fields(x.Diagnostic); len(f) >= 3 && f[0] == "smtp;" && (f[1] != fmt.Sprint(se.Code) || f[2] != want) {
						s.Violate("C18/status-code-lost", "report dsn%d: %s failed with %d %s at %s, the report's Diagnostic-Code is %q", tx.N, x.Addr, se.Code, want, a.stages[0], x.Diagnostic)
					}
				}
			}
			if x.Diagnostic != "" {
				f := strings.Fields(x.Diagnostic)
				// "smtp; 550 5.1.1 text"
				if len(f) >= 3 && f[0] == "smtp;" {
					if f[1][:1] != x.Status[:1] || f[2][:1] != x.Status[:1] {
						s.Violate("C18/status-mismatch", "report dsn%d: %s Status %s vs Diagnostic-Code %q", tx.N, x.Addr, x.Status, x.Diagnostic)
					}
				}
			}
		}
		for name := range must {
			if !got[name] {
				s.Violate("C18/recipient-set", "report dsn%d (attempt tx%d of %s) omits %s which failed terminally; listed=%v", tx.N, at.N, m.ID, name, rep.Rcpts)
			}
		}
	}
	if w.sink2 != nil {
		// a failure report has the null sender: when it cannot be delivered
		// itself, nothing is generated for it
		for _, tx := range w.sink2.Records() {
			s.Violate("C18/report-about-report", "a failure report that failed in the second queue caused another report: bounce2 tx%d from=%q rcpts=%v", tx.N, tx.From, tx.Rcpts)
		}
		n := 0
		for _, tx := range w.chainTgt.Records() {
			if tx.Started {
				n++
			}
		}
		s.StatN("chain_report_attempts", n)
	}
	if left := w.fs.Names(spool); len(left) > 0 && len(s.Violations()) == 0 {
		s.Violate("C18/spool-leftover", "spool not empty at quiescence: %v", left)
	}
}

// reportDuty says whether recipient r of m has to (2), may (1) or must not (0)
// be listed in the failure report that follows attempt `at`.
//
// It replays the documented life cycle over the observed transactions: a
// recipient takes part in an attempt while it is pending; it stops being
// pending when delivered, when an attempt leaves it with permanent failures
// only, or when max_tries attempts are used up. Where one attempt produced
// both a permanent and a retriable failure for r (per-recipient status vs
// commit), either treatment is accepted.
func (w *World) reportDuty(m *Msg, r string, at *actors.TxRecord) int {
	const (
		pending = iota
		maybe
		done
	)
	state := pending
	attempts := 0
	for _, tx := range w.txsOf(m) {
		if tx.N > at.N {
			break
		}
		if state == done {
			return 0
		}
		a := attempt(tx, r)
		if tx.Started && !a.presented {
			if state == maybe {
				state = done // it was not retried, so it had been treated as failed
			}
			if tx == at {
				return 0
			}
			continue
		}
		if tx.Started && a.presented && state == maybe {
			state = pending // it was retried
		}
		attempts++
		duty := 0
		switch {
		case a.delivered:
			state = done
		case len(a.set) == 0:
			// presented, nothing failed, not committed (aborted): stays pending
		case !anyRetriable(a.set) || attempts >= w.sc.MaxTries:
			duty = 2
			if state == maybe {
				duty = 1
			}
			state = done
		case anyPerm(a.set):
			duty = 1
			state = maybe
		}
		if tx == at {
			return duty
		}
	}
	return 0
}

func keys(m map[string]string) []string {
	var out []string
	for k := range m {
		out = append(out, k)
	}
	sort.Strings(out)
	return out
}

// ---------------------------------------------------------------- C16 (queue part)

func (w *World) oracleCodes() {
	s := w.s
	for _, rr := range w.reports() {
		if rr.rep == nil {
			continue
		}
		if bytes.Contains(rr.tx.Body, []byte(actors.SecretMarker)) || bytes.Contains(rr.tx.Header, []byte(actors.SecretMarker)) {
			s.Violate("C16/detail-disclosed/queue-report", "failure report dsn%d contains the text of an internal error", rr.tx.N)
		}
		for _, x := range rr.rep.Rcpts {
			f := strings.Fields(x.Diagnostic)
			if len(f) >= 3 && f[0] == "smtp;" && len(x.Status) > 0 {
				if f[1][:1] != f[2][:1] || f[1][:1] != x.Status[:1] {
					s.Violate("C16/class-mismatch/queue-report", "failure report for %s: Status %s, Diagnostic-Code %q", x.Addr, x.Status, x.Diagnostic)
				}
				// the class in the report agrees with how the queue treated the
				// failure: a recipient reported with 4.x.x was retried until
				// max_tries, one reported with 5.x.x was not retried after it
				if strings.Contains(x.Diagnostic, "tempfail") && x.Status[:1] != "4" {
					s.Violate("C16/retry-class-mismatch/queue-report", "temporary failure reported with Status %s: %q", x.Status, x.Diagnostic)
				}
				if strings.Contains(x.Diagnostic, "permfail") && x.Status[:1] != "5" {
					s.Violate("C16/retry-class-mismatch/queue-report", "permanent failure reported with Status %s: %q", x.Status, x.Diagnostic)
				}
			}
			// class vs treatment, for every kind of error value: look at the
			// recipient's last attempt before this report
			if rr.m == nil || len(x.Status) == 0 {
				continue
			}
			for _, r := range rr.m.Rcpts {
				if reportName(rr.m, r) != canonAddr(x.Addr) {
					continue
				}
				var last *rcptAttempt
				for _, d := range w.txsOf(rr.m) {
					if d.Step > rr.tx.Step {
						break
					}
					a := attempt(d, r)
					if a.presented || !d.Started {
						aa := a
						last = &aa
					}
				}
				if last == nil || len(last.set) == 0 {
					continue
				}
				if !anyPerm(last.set) && x.Status[:1] != "4" {
					s.Violate("C16/retry-class-mismatch/queue-report", "%s failed with retriable errors only (%v) and was retried as such, yet the report says Status %s (%q)", x.Addr, last.set, x.Status, x.Diagnostic)
				}
				if !anyRetriable(last.set) && x.Status[:1] != "5" {
					s.Violate("C16/retry-class-mismatch/queue-report", "%s failed permanently (%v), yet the report says Status %s (%q)", x.Addr, last.set, x.Status, x.Diagnostic)
				}
			}
		}
	}
	// retried <=> temporary: the retry discipline of C01 with the nested error
	// values of this profile
	w.oracleConservation("C16", false)
}
