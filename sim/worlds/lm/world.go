// Package lm is the limits world: the real limits.Group built by its own Init
// from configuration nodes, with the real limiters (all yield-instrumented),
// driven by concurrent delivery tasks on the fake clock.
package lm

import (
	"context"
	"fmt"
	"net"
	"strconv"
	"time"

	"github.com/foxcpp/maddy/framework/config"
	"github.com/foxcpp/maddy/internal/limits"
	"github.com/foxcpp/maddy/internal/verifsim/harness"
	"github.com/foxcpp/maddy/internal/verifsim/simrt"
)

type scopeCfg struct {
	conc  int // 0 = not configured
	burst int // 0 = no rate limit
	per   time.Duration
}

type world struct {
	s   *simrt.Sim
	g   *limits.Group
	cfg map[string]scopeCfg // all, ip, source, destination
	// holders per scope key, as observed at the API boundary
	hold map[string]int
	done int
}

func (w *world) inc(scope, key string) {
	k := scope + ":" + key
	w.hold[k]++
	if n := w.cfg[scope].conc; n > 0 && w.hold[k] > n {
		w.s.Violate("C11/over-limit/"+scope, "%d deliveries hold a permit in scope %s (key %q), configured concurrency is %d", w.hold[k], scope, key, n)
	}
}
func (w *world) dec(scope, key string) { w.hold[scope+":"+key]-- }

func mkGroup(cfg map[string]scopeCfg) (*limits.Group, error) {
	var children []config.Node
	for _, sc := range []string{"all", "ip", "source", "destination"} {
		c := cfg[sc]
		if c.conc > 0 {
			children = append(children, config.Node{Name: sc, Args: []string{"concurrency", strconv.Itoa(c.conc)}})
		}
		if c.burst > 0 {
			children = append(children, config.Node{Name: sc, Args: []string{"rate", strconv.Itoa(c.burst), c.per.String()}})
		}
	}
	mod, err := limits.New("limits", "lim", nil, nil)
	if err != nil {
		return nil, err
	}
	g := mod.(*limits.Group)
	if err := g.Init(config.NewMap(nil, config.Node{Name: "limits", Children: children})); err != nil {
		return nil, err
	}
	return g, nil
}

type delivery struct {
	ip    net.IP
	src   string
	dsts  []string
	hold  time.Duration
	delay time.Duration
}

// Run is the world function for C11 (direct part).
func Run(s *simrt.Sim, a *harness.Args, r *harness.Result) {
	const st = "scen"
	w := &world{s: s, cfg: map[string]scopeCfg{}, hold: map[string]int{}}
	family := s.T.Choose(st, 48)
	manyKeys := family == 0 && a.Knobs["no_manykeys"] == 0
	rates := false
	for _, sc := range []string{"all", "ip", "source", "destination"} {
		var c scopeCfg
		if s.T.Choose(st, 2) == 1 {
			c.conc = 1 + s.T.Choose(st, 3)
		}
		if s.T.Choose(st, 6) == 0 {
			c.burst = 1 + s.T.Choose(st, 4)
			c.per = []time.Duration{time.Second, 10 * time.Second}[s.T.Choose(st, 2)]
			rates = true
		}
		w.cfg[sc] = c
	}
	floodDest := false
	if manyKeys {
		// the bucket-table scenario needs a keyed scope
		if w.cfg["source"].conc == 0 {
			w.cfg["source"] = scopeCfg{conc: 1 + s.T.Choose(st, 3)}
		}
		// ... and in half of the floods it is the destination scope whose
		// table overflows (deliveries that come later meet a full table)
		floodDest = s.T.Choose(st, 2) == 1
		if floodDest && w.cfg["destination"].conc == 0 {
			w.cfg["destination"] = scopeCfg{conc: 1 + s.T.Choose(st, 2)}
		}
		for k, c := range w.cfg {
			c.burst = 0
			w.cfg[k] = c
		}
		rates = false
		_ = rates
	}
	s.PreemptBudget = []int{0, 1, 2, 3, -1}[s.T.Choose("knob", 5)]
	s.PreemptNum, s.PreemptDen = 1, []int{2, 4, 8}[s.T.Choose("knob", 3)]
	s.TimeNum, s.TimeDen = 1, 16
	s.TimeLadder = []time.Duration{time.Second, 5 * time.Second, 6 * time.Second}
	s.TimeBudget = 4
	s.MaxSteps = 400000
	if manyKeys {
		// 20 013 keys, each with its own limiter objects: the number of
		// synchronisation points per key is an implementation detail
		s.MaxSteps = 4000000
	}

	var berr error
	booted := false
	s.Spawn("boot", nil, func() {
		w.g, berr = mkGroup(w.cfg)
		booted = true
	})
	s.Run(time.Second, func() bool { return booted })
	if !booted || berr != nil {
		simrt.Harnessf("limits.Group init failed: %v", berr)
	}

	nIP, nSrc, nDst := 1+s.T.Choose(st, 2), 1+s.T.Choose(st, 3), 1+s.T.Choose(st, 3)
	nTasks := 1 + s.T.Choose(st, 12)
	if s.T.Choose(st, 8) == 0 {
		nTasks = 16 + s.T.Choose(st, 49)
	}
	if manyKeys {
		nTasks = 1 + s.T.Choose(st, 3)
	}
	var ds []delivery
	for i := 0; i < nTasks; i++ {
		d := delivery{
			ip:    net.IPv4(192, 0, 2, byte(1+s.T.Choose(st, nIP))),
			src:   fmt.Sprintf("src%d.example", 1+s.T.Choose(st, nSrc)),
			hold:  []time.Duration{0, 0, time.Second, 6 * time.Second, 90 * time.Second}[s.T.Choose(st, 5)],
			delay: []time.Duration{0, 0, 0, time.Second, 3 * time.Second}[s.T.Choose(st, 5)],
		}
		for j, n := 0, s.T.Choose(st, 3); j < n; j++ {
			d.dsts = append(d.dsts, fmt.Sprintf("dst%d.example", 1+s.T.Choose(st, nDst)))
		}
		ds = append(ds, d)
	}
	total := len(ds)
	for i, d := range ds {
		d := d
		name := fmt.Sprintf("d%02d", i+1)
		s.Spawn(name, nil, func() {
			defer func() { w.done++ }()
			w.deliver(name, d)
		})
	}
	floodDelay := []time.Duration{0, 61 * time.Second}[s.T.Choose(st, 2)]
	if manyKeys {
		total++
		s.Spawn("flood", nil, func() {
			defer func() { w.done++ }()
			// 20010 is the bucket-table capacity used by limits.Group
			n := 20013
			ctx := context.Background()
			if floodDelay > 0 {
				// start when earlier buckets are older than the reap interval
				simrt.Sleep(floodDelay)
				simrt.Yield("flood:woke")
			}
			for i := 0; i < n; i++ {
				src := fmt.Sprintf("flood%05d.example", i)
				if floodDest {
					if err := w.g.TakeDest(ctx, src); err != nil {
						continue
					}
					w.g.ReleaseDest(src)
					continue
				}
				ip := net.IPv4(198, 51, byte(i/250), byte(1+i%250))
				if err := w.g.TakeMsg(ctx, ip, src); err != nil {
					continue
				}
				w.g.ReleaseMsg(ip, src)
			}
			s.Stat("bucket_capacity_exceeded")
		})
	}
	res := s.Run(3*time.Minute, func() bool { return w.done == total })
	for _, p := range s.Panics() {
		if p.Func != "HARNESS" {
			s.Violate("C11/panic/"+p.Func, "task %s panicked: %s", p.Task, p.Value)
		}
	}
	if w.done != total && len(s.Violations()) == 0 && res == simrt.Budget && manyKeys {
		// the step cap ended a key flood that was still making progress: the
		// run says nothing (a hang shows as Idle with parked tasks)
		s.Stat("flood_cut_by_step_cap")
		r.Shape = "flood-cut"
		return
	}
	if w.done != total && len(s.Violations()) == 0 {
		s.Violate("C11/hang", "only %d of %d deliveries finished (%v); parked=%v", w.done, total, res, s.ParkedKeys())
	}
	// after quiescence the full N is acquirable again in every scope/key used
	if len(s.Violations()) == 0 {
		checked := false
		// the probe asks for *immediate* acquisition: no time may pass
		s.TimeNum = 0
		s.Spawn("post", nil, func() {
			if manyKeys {
				// a bucket table filled beyond its capacity refuses new work
				// until the buckets are stale (documented overload
				// behaviour); quiescence includes that interval
				simrt.Sleep(2*time.Minute + time.Second)
				simrt.Yield("post:woke")
			}
			w.postCheck(ds)
			checked = true
		})
		s.Run(10*time.Minute, func() bool { return checked })
		for _, p := range s.Panics() {
			if p.Func != "HARNESS" {
				s.Violate("C11/panic/"+p.Func, "task %s panicked: %s", p.Task, p.Value)
			}
		}
		if !checked && len(s.Violations()) == 0 {
			s.Violate("C11/hang", "post-quiescence acquisition did not finish; parked=%v", s.ParkedKeys())
		}
	}
	r.Shape = fmt.Sprintf("cfg=%v tasks=%d many=%v", w.cfg, nTasks, manyKeys)
	st2 := s.Stats()
	r.Nontrivial = s.Preempts() > 0 || st2["limit_timeout"] > 0 || st2["limit_waited"] > 0 || manyKeys
	r.Sample = map[string]interface{}{"config": fmt.Sprint(w.cfg), "deliveries": nTasks, "many_keys": manyKeys, "steps": s.Steps(), "stats": st2}
}

func (w *world) deliver(name string, d delivery) {
	s := w.s
	ctx := context.Background()
	if d.delay > 0 {
		simrt.Sleep(d.delay)
		simrt.Yield("deliver:woke")
	}
	simrt.Point("deliver:"+name, "takemsg")
	t0 := time.Now()
	if err := w.g.TakeMsg(ctx, d.ip, d.src); err != nil {
		s.Stat("limit_timeout")
		s.Logf("%s TakeMsg failed after %v: %v", name, time.Since(t0), err)
		return
	}
	if time.Since(t0) > 0 {
		s.Stat("limit_waited")
	}
	w.inc("all", "")
	w.inc("ip", d.ip.String())
	w.inc("source", d.src)
	s.Logf("%s holds msg permits ip=%s src=%s", name, d.ip, d.src)
	var got []string
	for _, dst := range d.dsts {
		simrt.Point("deliver:"+name, "takedest")
		if err := w.g.TakeDest(ctx, dst); err != nil {
			s.Stat("limit_timeout")
			s.Logf("%s TakeDest %s failed: %v", name, dst, err)
			continue
		}
		w.inc("destination", dst)
		got = append(got, dst)
	}
	if d.hold > 0 {
		simrt.Sleep(d.hold)
		simrt.Yield("deliver:held")
	}
	simrt.Point("deliver:"+name, "release")
	for _, dst := range got {
		w.dec("destination", dst)
		w.g.ReleaseDest(dst)
	}
	w.dec("all", "")
	w.dec("ip", d.ip.String())
	w.dec("source", d.src)
	w.g.ReleaseMsg(d.ip, d.src)
	s.Logf("%s released", name)
}

// refill waits until every configured rate limiter has refilled, so that only
// concurrency limits can make the next probe acquisition wait.
func (w *world) refill() {
	var max time.Duration
	for _, c := range w.cfg {
		if c.burst > 0 && c.per > max {
			max = c.per
		}
	}
	if max > 0 {
		simrt.Sleep(max + time.Second)
		simrt.Yield("post:refilled")
	}
}

// postCheck: with nobody holding anything, exactly the configured number of
// permits can be taken per scope key before a further take times out.
func (w *world) postCheck(ds []delivery) {
	s := w.s
	ctx := context.Background()
	seen := map[string]bool{}
	for _, d := range ds {
		k := d.ip.String() + "|" + d.src
		if seen[k] {
			continue
		}
		seen[k] = true
		capacity := 0
		limScope := ""
		for _, sc := range []string{"all", "ip", "source"} {
			if n := w.cfg[sc].conc; n > 0 && (capacity == 0 || n < capacity) {
				capacity = n
				limScope = sc
			}
		}
		if capacity == 0 {
			continue
		}
		okN := 0
		for i := 0; i < capacity+1; i++ {
			w.refill()
			if err := w.g.TakeMsg(ctx, d.ip, d.src); err != nil {
				s.Logf("post: TakeMsg #%d ip=%s src=%s failed: %v", i+1, d.ip, d.src, err)
				break
			}
			okN++
		}
		for i := 0; i < okN; i++ {
			w.g.ReleaseMsg(d.ip, d.src)
		}
		if okN < capacity {
			s.Violate("C11/permit-leak/"+limScope, "after quiescence only %d of %d permits could be taken for ip=%s source=%s", okN, capacity, d.ip, d.src)
		}
		if okN > capacity {
			s.Violate("C11/scope-miswired/"+limScope, "%d permits could be taken for ip=%s source=%s although the configured concurrency is %d", okN, d.ip, d.src, capacity)
		}
	}
	seenD := map[string]bool{}
	for _, d := range ds {
		for _, dst := range d.dsts {
			if seenD[dst] {
				continue
			}
			seenD[dst] = true
			n := w.cfg["destination"].conc
			if n == 0 {
				continue
			}
			okN := 0
			for i := 0; i < n+1; i++ {
				w.refill()
				if err := w.g.TakeDest(ctx, dst); err != nil {
					break
				}
				okN++
			}
			for i := 0; i < okN; i++ {
				w.g.ReleaseDest(dst)
			}
			if okN < n {
				s.Violate("C11/permit-leak/destination", "after quiescence only %d of %d permits could be taken for destination %s", okN, n, dst)
			}
			if okN > n {
				s.Violate("C11/scope-miswired/destination", "%d permits could be taken for destination %s although the configured concurrency is %d", okN, dst, n)
			}
		}
	}
}
