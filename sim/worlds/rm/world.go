// Package rm is the remote-delivery world: the real target.remote (real
// smtpconn, connection pool, limits, mx_auth policies built by PolicyGroup.Init
// from configuration nodes, real crypto/tls) against scripted MX servers over
// the simulated network, with a stub resolver and a scripted MTA-STS fetch.
// A driver issues histories of messages through one target instance.
package rm

import (
	"bytes"
	"context"
	"errors"
	"fmt"
	"net"
	"sort"
	"strings"
	"time"

	"crypto/x509"
	"github.com/emersion/go-message/textproto"
	"github.com/emersion/go-smtp"
	"github.com/foxcpp/go-mockdns"
	"github.com/foxcpp/go-mtasts"
	"github.com/foxcpp/maddy/framework/buffer"
	"github.com/foxcpp/maddy/framework/config"
	mdns "github.com/foxcpp/maddy/framework/dns"
	"github.com/foxcpp/maddy/framework/exterrors"
	"github.com/foxcpp/maddy/framework/log"
	"github.com/foxcpp/maddy/framework/module"
	"github.com/foxcpp/maddy/internal/target/remote"
	"github.com/foxcpp/maddy/internal/verifsim/actors"
	"github.com/foxcpp/maddy/internal/verifsim/harness"
	"github.com/foxcpp/maddy/internal/verifsim/simnet"
	"github.com/foxcpp/maddy/internal/verifsim/simrt"
	"github.com/miekg/dns"
)

type mxSpec struct {
	host string
	pref uint16
	mx   *actors.ScriptedMX
	tlsa string // none, ee-match, ee-mismatch, ta-match, unusable, servfail
	down bool   // nothing listens on this host (connection refused)
	// cname: the MX host name is an alias; address and TLSA records live at
	// the canonical name (RFC 7672 section 2.2.2)
	cname bool
	// aFail: the DNSSEC-aware resolver answers the A query for this host with
	// SERVFAIL (a bogus signature, a broken server) while an AAAA record exists
	// and is answered without the AD flag
	aFail bool
}

func (m *mxSpec) canon() string { return strings.Replace(m.host, ".dest.", ".canon.", 1) }

type rmsg struct {
	id             string
	from           string
	rcpts          []string
	utf8           bool
	requireTLS     bool
	tlsOverride    bool
	quarantine     bool
	quarantineLate bool // flag set between the recipient and the body stage
	gap            time.Duration
	// results
	startErr error
	big      bool  // body larger than the client's write buffer
	atomic   bool  // the caller uses the all-or-nothing Body instead of BodyNonAtomic
	ctxDone  bool  // the caller's context is already done when the body is handed in
	bodyErr  error // result of the atomic Body
	rcptErr  map[string]error
	status   map[string]error
	bodyDone bool
}

type world struct {
	s   *simrt.Sim
	a   *harness.Args
	rt  *remote.Target
	net *simnet.Net

	useSTS      bool
	useLocal    bool
	minTLS      string // none, encrypted, authenticated
	minMX       string // none, mtasts
	override    bool   // requiretls_override
	relaxed     bool   // relaxed_requiretls
	stsMode     string // none, testing, enforce, error
	stsMX       []string
	destLimit   int
	msgLimit    int      // concurrency limit of the message scopes (0 = none)
	msgScopes   []string // which of all / ip / source are limited
	dnsTempFail bool
	mxs         []*mxSpec
	msgs        []*rmsg
	stsFetches  int
	// per destination domain ("dest" = dest.example, "idn" = the
	// internationalized domain served by the same hosts)
	stsModeD  map[string]string
	stsDelayD map[string]time.Duration // how long the policy fetch takes
	dnsFailD  map[string]bool          // MX lookup fails temporarily

	// DNSSEC dimension
	useDANE   bool
	useDNSSEC bool
	ext       bool // a DNSSEC-aware resolver is available
	loopback  bool // ... and it is reached over loopback (its AD flags are trusted)
	// resolvers: the configured server list of that resolver; with two
	// servers the first may be out of order (firstDown: "timeout" or
	// "servfail"), so that the answers come from the second one
	resolvers []string
	firstDown string
	// concurrent: the messages of the history are delivered by tasks of their
	// own, side by side (through the one target: shared pool, limits, policy
	// objects)
	concurrent bool
	zoneAD    bool // the destination's zones are signed (resolver sets AD)
}

const destDomain = "dest.example"

var rmRcpts = []string{"alice@dest.example", "bob@dest.example", "Carol@dest.example", "dave@dest.example", "erin@тест.example", "frank@тест.example"}

func node(name string, args ...string) config.Node { return config.Node{Name: name, Args: args} }

func (w *world) gen() {
	s := w.s
	const st = "scen"
	w.useSTS = s.T.Choose(st, 2) == 1
	w.useLocal = s.T.Choose(st, 3) != 0
	w.minTLS = []string{"none", "encrypted", "authenticated"}[s.T.Choose(st, 3)]
	w.minMX = []string{"none", "mtasts", "dnssec"}[s.T.Choose(st, 3)]
	w.useDANE = s.T.Choose(st, 2) == 1
	w.useDNSSEC = s.T.Choose(st, 2) == 1
	w.ext = s.T.Choose(st, 4) != 0
	w.loopback = s.T.Choose(st, 4) != 0
	w.resolvers = []string{"192.0.2.53"}
	if w.loopback {
		w.resolvers = []string{"127.0.0.1"}
	}
	if s.T.Choose(st, 3) == 0 {
		// a second server of the other kind; whose answers are used (and so
		// whether AD flags count) depends on whether the first one works
		if w.loopback {
			w.resolvers = append(w.resolvers, "192.0.2.53")
		} else {
			w.resolvers = append(w.resolvers, "127.0.0.1")
		}
		w.firstDown = []string{"", "timeout", "servfail"}[s.T.Choose(st, 3)]
	}
	w.zoneAD = s.T.Choose(st, 3) != 0
	w.override = s.T.Choose(st, 2) == 1
	w.relaxed = s.T.Choose(st, 2) == 1
	w.stsMode = []string{"none", "testing", "enforce", "enforce", "error"}[s.T.Choose(st, 5)]
	w.destLimit = []int{0, 1, 2}[s.T.Choose(st, 3)]
	// the target's own message-scope limits (taken in Start, held until the
	// delivery is closed - whatever stage it ends at)
	w.msgLimit = []int{0, 1, 2}[s.T.Choose(st, 3)]
	w.msgScopes = [][]string{{"all"}, {"ip"}, {"source"}, {"all", "ip", "source"}}[s.T.Choose(st, 4)]
	w.dnsTempFail = s.T.Choose(st, 8) == 0
	w.stsModeD = map[string]string{"dest": w.stsMode, "idn": w.stsMode}
	if s.T.Choose(st, 3) == 2 {
		w.stsModeD["idn"] = []string{"none", "testing", "enforce", "error"}[s.T.Choose(st, 4)]
	}
	w.dnsFailD = map[string]bool{}
	if w.dnsTempFail {
		switch s.T.Choose(st, 3) {
		case 0:
			w.dnsFailD["dest"], w.dnsFailD["idn"] = true, true
		case 1:
			w.dnsFailD["dest"] = true
		case 2:
			w.dnsFailD["idn"] = true
		}
	}
	delays := []time.Duration{0, 0, 0, 0, 2 * time.Second, 20 * time.Second, 400 * time.Second}
	w.stsDelayD = map[string]time.Duration{"dest": delays[s.T.Choose(st, len(delays))], "idn": delays[s.T.Choose(st, len(delays))]}
	nmx := 1 + s.T.Choose(st, 2)
	for i := 0; i < nmx; i++ {
		host := fmt.Sprintf("mx%d.dest.example", i+1)
		p := &actors.MXPlan{EnhCodes: true, SMTPUTF8: s.T.Choose(st, 2) == 1,
			StartTLS: s.T.Choose(st, 4) != 0, TLSFails: s.T.Choose(st, 8) == 0,
			Cert:       []actors.CertKind{actors.CertValid, actors.CertValid, actors.CertSelfSigned, actors.CertWrongName, actors.CertExpired}[s.T.Choose(st, 5)],
			RequireTLS: s.T.Choose(st, 2) == 1,
			Quit421:    s.T.Choose(st, 6) == 0,
			Perm552:    s.T.Choose(st, 4) == 0,
			IdleClose:  []time.Duration{0, 0, 20 * time.Second}[s.T.Choose(st, 3)],
			Rcpt:       map[string][]actors.Outcome{}, FinalPer: map[string][]actors.Outcome{}}
		num := []int{0, 2, 4}[s.T.Choose(st, 3)]
		for k := 0; k < 6; k++ {
			p.Mail = append(p.Mail, genO(s.T, num))
			p.Data = append(p.Data, genO(s.T, num/2))
			p.Final = append(p.Final, genO(s.T, num))
			p.Greeting = append(p.Greeting, genO(s.T, num/2))
			p.DropMidData = append(p.DropMidData, s.T.Bool("plan", num, 24))
		}
		for _, r := range append(append([]string{}, rmRcpts...), "erin@xn--e1aybc.example", "frank@xn--e1aybc.example") {
			for k := 0; k < 6; k++ {
				p.Rcpt[r] = append(p.Rcpt[r], genO(s.T, num))
			}
		}
		tlsa := []string{"none", "none", "ee-match", "ee-mismatch", "ta-match", "unusable", "servfail"}[s.T.Choose(st, 7)]
		down := nmx > 1 && s.T.Choose(st, 5) == 0
		cname := s.T.Choose(st, 4) == 0 && tlsa != "ta-match"
		aFail := s.T.Choose(st, 12) == 0 && !cname
		w.mxs = append(w.mxs, &mxSpec{host: host, pref: uint16(10 * (i + 1)), tlsa: tlsa, down: down, cname: cname, aFail: aFail, mx: &actors.ScriptedMX{Host: host, Plan: p, PKI: actors.SharedPKI()}})
	}
	switch s.T.Choose(st, 3) {
	case 0:
		w.stsMX = []string{"mx1.dest.example"}
	case 1:
		w.stsMX = []string{"*.dest.example"}
	default:
		w.stsMX = []string{"mail.elsewhere.example"}
	}
	nm := 1 + s.T.Choose(st, 3)
	for i := 0; i < nm; i++ {
		m := &rmsg{id: fmt.Sprintf("m%d", i+1), from: "sender@origin.example", rcptErr: map[string]error{}, status: map[string]error{}}
		n := 1 + s.T.Choose(st, 2)
		for k := 0; k < n; k++ {
			r := rmRcpts[s.T.Choose(st, len(rmRcpts))]
			dup := false
			for _, x := range m.rcpts {
				if x == r {
					dup = true
				}
			}
			if !dup {
				m.rcpts = append(m.rcpts, r)
			}
		}
		if w.a.Prop == "C09" && s.T.Choose(st, 4) == 0 {
			// a recipient list that names an address twice (C09 quantifies
			// over duplicates): one result per acceptance
			m.rcpts = append(m.rcpts, m.rcpts[0])
		}
		switch s.T.Choose(st, 6) {
		case 0:
			m.requireTLS = true
		case 1:
			m.tlsOverride = true
		case 2:
			m.quarantine = true
		case 3:
			// a body-stage check or the DMARC policy quarantines: the flag
			// appears after the recipients were accepted
			m.quarantineLate = true
		}
		m.gap = []time.Duration{0, 0, 30 * time.Second, 200 * time.Second}[s.T.Choose(st, 4)]
		m.utf8 = true
		m.atomic = s.T.Choose(st, 4) == 0
		m.big = s.T.Choose(st, 3) == 0
		m.ctxDone = s.T.Choose(st, 10) == 0
		w.msgs = append(w.msgs, m)
	}
	w.concurrent = len(w.msgs) >= 2 && s.T.Choose(st, 4) == 0
	if s.T.Choose(st, 8) == 0 {
		// biased sub-scenario: nothing stands in the way of transmission and
		// the first message goes to two domains whose transactions end
		// differently (one temporary, one permanent failure, or one success)
		w.useSTS, w.useDANE, w.useDNSSEC, w.useLocal, w.dnsTempFail = false, false, false, false, false
		w.dnsFailD = map[string]bool{}
		mx := w.mxs[0]
		mx.down = false
		p := mx.mx.Plan
		p.StartTLS, p.TLSFails, p.Cert = true, false, actors.CertValid
		ok := []actors.Outcome{actors.OK}
		p.Greeting, p.Mail, p.Data, p.DropMidData = ok, ok, ok, nil
		for k := range p.Rcpt {
			p.Rcpt[k] = ok
		}
		mix := [][]actors.Outcome{{actors.Temp, actors.Perm}, {actors.Perm, actors.Temp}, {actors.OK, actors.Perm}, {actors.Temp, actors.OK}}[s.T.Choose(st, 4)]
		p.Final = append(append([]actors.Outcome{}, mix...), actors.OK)
		m := w.msgs[0]
		m.rcpts = []string{"alice@dest.example", "erin@тест.example"}
		m.requireTLS, m.tlsOverride, m.quarantine, m.quarantineLate = false, false, false, false
		m.atomic = s.T.Choose(st, 2) == 0
	} else if s.T.Choose(st, 8) == 0 {
		// biased sub-scenario: a REQUIRETLS message for recipients at two
		// domains that differ in how their MX is authenticated (MTA-STS
		// enforce for one, no policy for the other), relaxed REQUIRETLS, and
		// servers with good TLS that mostly lack the REQUIRETLS extension:
		// what is decided (or dropped) for one domain must not leak into the
		// transaction of the other
		w.useSTS, w.relaxed, w.dnsTempFail = true, true, false
		w.dnsFailD = map[string]bool{}
		w.stsMX = []string{"*.dest.example"}
		w.stsDelayD = map[string]time.Duration{"dest": 0, "idn": 0}
		if s.T.Choose(st, 2) == 0 {
			w.stsModeD = map[string]string{"dest": "enforce", "idn": "none"}
		} else {
			w.stsModeD = map[string]string{"dest": "none", "idn": "enforce"}
		}
		for _, mx := range w.mxs {
			mx.down, mx.cname = false, false
			p := mx.mx.Plan
			p.StartTLS, p.TLSFails, p.Cert = true, false, actors.CertValid
			p.RequireTLS = s.T.Choose(st, 3) == 0
		}
		m := w.msgs[0]
		m.rcpts = []string{"alice@dest.example", "erin@тест.example"}
		if s.T.Choose(st, 2) == 0 {
			m.rcpts[0], m.rcpts[1] = m.rcpts[1], m.rcpts[0]
		}
		m.requireTLS, m.tlsOverride, m.quarantine, m.quarantineLate = true, false, false, false
	} else if s.T.Choose(st, 8) == 0 {
		// biased sub-scenario: the first message goes to two domains; the MX
		// lookup of the first one fails at once while its (slow) MTA-STS fetch
		// is still running, the second one publishes an enforced policy that the
		// servers mostly do not satisfy and whose fetch takes longer still - what
		// is learned late about the abandoned domain must not answer for the other
		w.useSTS, w.dnsTempFail = true, true
		a, b := "dest", "idn"
		ra, rb := "alice@dest.example", "erin@тест.example"
		if s.T.Choose(st, 2) == 0 {
			a, b, ra, rb = b, a, rb, ra
		}
		w.dnsFailD = map[string]bool{a: true}
		w.stsModeD = map[string]string{a: []string{"none", "none", "testing", "error"}[s.T.Choose(st, 4)], b: "enforce"}
		d := [][2]time.Duration{{2 * time.Second, 20 * time.Second}, {0, 2 * time.Second}, {20 * time.Second, 400 * time.Second}, {2 * time.Second, 2 * time.Second}}[s.T.Choose(st, 4)]
		w.stsDelayD = map[string]time.Duration{a: d[0], b: d[1]}
		if s.T.Choose(st, 2) == 0 {
			w.stsMX = []string{"mail.elsewhere.example"}
		}
		for _, mx := range w.mxs {
			mx.down = false
		}
		m := w.msgs[0]
		m.rcpts = []string{ra, rb}
		m.requireTLS, m.tlsOverride, m.quarantine, m.quarantineLate = false, false, false, false
	}
}

func genO(t *simrt.Tape, num int) actors.Outcome {
	if !t.Bool("plan", num, 16) {
		return actors.OK
	}
	return actors.Outcome(1 + t.Choose("plan", 3))
}

func (w *world) build() error {
	var pol []config.Node
	if w.useSTS {
		pol = append(pol, config.Node{Name: "mtasts", Children: []config.Node{node("cache", "ram")}})
	}
	if w.useDANE {
		pol = append(pol, config.Node{Name: "dane"})
	}
	if w.useDNSSEC {
		pol = append(pol, config.Node{Name: "dnssec"})
	}
	if w.useLocal {
		pol = append(pol, config.Node{Name: "local_policy", Children: []config.Node{node("min_tls_level", w.minTLS), node("min_mx_level", w.minMX)}})
	}
	cfg := []config.Node{
		node("hostname", "mx.sim.example"),
		node("requiretls_override", map[bool]string{true: "yes", false: "no"}[w.override]),
		node("relaxed_requiretls", map[bool]string{true: "yes", false: "no"}[w.relaxed]),
	}
	if len(pol) > 0 {
		cfg = append(cfg, config.Node{Name: "mx_auth", Children: pol})
	}
	var lim []config.Node
	if w.destLimit > 0 {
		lim = append(lim, node("destination", "concurrency", fmt.Sprint(w.destLimit)))
	}
	if w.msgLimit > 0 {
		for _, sc := range w.msgScopes {
			lim = append(lim, node(sc, "concurrency", fmt.Sprint(w.msgLimit)))
		}
	}
	if len(lim) > 0 {
		cfg = append(cfg, config.Node{Name: "limits", Children: lim})
	}
	mod, err := remote.New("target.remote", "remote", nil, nil)
	if err != nil {
		return err
	}
	w.rt = mod.(*remote.Target)
	w.rt.Log = log.Logger{Out: log.NopOutput{}, Name: "remote"}
	if err := w.rt.Init(config.NewMap(nil, config.Node{Children: cfg})); err != nil {
		return err
	}
	mkZone := func(dk string) mockdns.Zone {
		zone := mockdns.Zone{}
		for _, m := range w.mxs {
			zone.MX = append(zone.MX, net.MX{Host: m.host + ".", Pref: m.pref})
		}
		if w.dnsFailD[dk] {
			zone.Err = &net.DNSError{Err: "scripted SERVFAIL", Name: destDomain, IsTemporary: true}
			w.s.Stat("fault_dns_mx_tempfail")
		}
		return zone
	}
	// a second, internationalized domain served by the same MX hosts
	res := &mockdns.Resolver{Zones: map[string]mockdns.Zone{destDomain + ".": mkZone("dest"), "тест.example.": mkZone("idn"), "xn--e1aybc.example.": mkZone("idn")}}
	stsGet := func(ctx context.Context, domain string) (*mtasts.Policy, error) {
		simrt.Point("sts:get", domain)
		w.stsFetches++
		dk := domKey(domain)
		if d := w.stsDelayD[dk]; d > 0 {
			// a slow policy host; like the real fetch, gives up when cancelled
			w.s.Stat("fault_sts_fetch_slow")
			t := time.NewTimer(d)
			select {
			case <-t.C:
			case <-ctx.Done():
				t.Stop()
				return nil, ctx.Err()
			case <-simrt.Done():
				t.Stop()
				simrt.ExitShutdown()
			}
			simrt.Yield("sts:fetched")
		}
		switch w.stsModeD[dk] {
		case "none":
			return nil, mtasts.ErrNoPolicy
		case "error":
			w.s.Stat("fault_sts_fetch_error")
			return nil, errors.New("scripted MTA-STS fetch failure")
		}
		mode := mtasts.ModeTesting
		if w.stsModeD[dk] == "enforce" {
			mode = mtasts.ModeEnforce
		}
		return &mtasts.Policy{Mode: mode, MaxAge: 86400, MX: w.stsMX}, nil
	}
	var ext *mdns.ExtResolver
	if w.ext {
		ext = mdns.VerifNewExtResolver(w.resolvers...)
		mdns.VerifExchange = w.dnsExchange
	} else {
		mdns.VerifExchange = nil
	}
	w.rt.VerifSeams(res, w.net.Dialer("192.0.2.1:40000"), actors.SharedPKI().Roots, stsGet, ext)
	return nil
}

type timeoutError struct{}

func (timeoutError) Error() string   { return "i/o timeout" }
func (timeoutError) Timeout() bool   { return true }
func (timeoutError) Temporary() bool { return true }

// answersFromLoopback: the server whose answers the resolver ends up using is
// a loopback address (only then may AD flags be believed).
func (w *world) answersFromLoopback() bool {
	srv := w.resolvers[0]
	if w.firstDown != "" && len(w.resolvers) > 1 {
		srv = w.resolvers[1]
	}
	return srv == "127.0.0.1"
}

// dnsExchange is the simulated validating resolver behind ExtResolver.
func (w *world) dnsExchange(ctx context.Context, q *dns.Msg, server string) (*dns.Msg, error) {
	name := strings.ToLower(q.Question[0].Name)
	qt := q.Question[0].Qtype
	simrt.Point("dns:"+dns.TypeToString[qt], name)
	if host, _, _ := net.SplitHostPort(server); w.firstDown != "" && host == w.resolvers[0] {
		w.s.Stat("fault_dns_first_resolver_" + w.firstDown)
		if w.firstDown == "timeout" {
			return nil, &net.OpError{Op: "read", Net: "udp", Err: timeoutError{}}
		}
		r := new(dns.Msg)
		r.SetReply(q)
		r.Rcode = dns.RcodeServerFailure
		return r, nil
	}
	r := new(dns.Msg)
	r.SetReply(q)
	r.AuthenticatedData = w.zoneAD
	hdr := func(t uint16) dns.RR_Header {
		return dns.RR_Header{Name: q.Question[0].Name, Rrtype: t, Class: dns.ClassINET, Ttl: 300}
	}
	isDest := name == destDomain+"." || name == "xn--e1aybc.example." || name == "тест.example."
	switch qt {
	case dns.TypeMX:
		if isDest {
			if w.dnsFailD[domKey(name)] {
				r.Rcode = dns.RcodeServerFailure
				return r, nil
			}
			for _, m := range w.mxs {
				r.Answer = append(r.Answer, &dns.MX{Hdr: hdr(dns.TypeMX), Preference: m.pref, Mx: m.host + "."})
			}
		}
	case dns.TypeAAAA:
		for _, m := range w.mxs {
			if m.aFail && name == m.host+"." {
				r.AuthenticatedData = false
				r.Answer = append(r.Answer, &dns.AAAA{Hdr: hdr(dns.TypeAAAA), AAAA: net.ParseIP("2001:db8::7")})
			}
		}
	case dns.TypeA:
		for _, m := range w.mxs {
			if m.aFail && name == m.host+"." {
				w.s.Stat("fault_dns_a_servfail")
				r.Rcode = dns.RcodeServerFailure
				return r, nil
			}
		}
		for _, m := range w.mxs {
			switch {
			case name == m.host+"." && m.cname:
				// what a recursive resolver returns: the alias and the address
				// record of the canonical name
				r.Answer = append(r.Answer, &dns.CNAME{Hdr: hdr(dns.TypeCNAME), Target: m.canon() + "."})
				r.Answer = append(r.Answer, &dns.A{Hdr: dns.RR_Header{Name: m.canon() + ".", Rrtype: dns.TypeA, Class: dns.ClassINET, Ttl: 300}, A: net.IPv4(203, 0, 113, 7)})
			case name == m.host+".", m.cname && name == m.canon()+".":
				r.Answer = append(r.Answer, &dns.A{Hdr: hdr(dns.TypeA), A: net.IPv4(203, 0, 113, 7)})
			}
		}
	case dns.TypeCNAME:
		for _, m := range w.mxs {
			if m.cname && name == m.host+"." {
				r.Answer = append(r.Answer, &dns.CNAME{Hdr: hdr(dns.TypeCNAME), Target: m.canon() + "."})
			}
		}
	case dns.TypeTLSA:
		for _, m := range w.mxs {
			base := m.host
			if m.cname {
				// records are published at the canonical name only; the alias
				// itself has an (authenticated) empty answer
				base = m.canon()
			}
			if name != "_25._tcp."+base+"." {
				continue
			}
			leaf, _ := x509.ParseCertificate(m.mx.PKI.Cert(m.host, m.mx.Plan.Cert).Certificate[0])
			mk := func(usage, sel, mt uint8, cert *x509.Certificate) *dns.TLSA {
				data, _ := dns.CertificateToDANE(sel, mt, cert)
				return &dns.TLSA{Hdr: hdr(dns.TypeTLSA), Usage: usage, Selector: sel, MatchingType: mt, Certificate: data}
			}
			switch m.tlsa {
			case "ee-match":
				r.Answer = append(r.Answer, mk(3, 1, 1, leaf))
			case "ee-mismatch":
				t := mk(3, 1, 1, leaf)
				t.Certificate = strings.Repeat("ab", 32)
				r.Answer = append(r.Answer, t)
			case "ta-match":
				r.Answer = append(r.Answer, mk(2, 0, 1, m.mx.PKI.CA))
			case "unusable":
				t := mk(1, 1, 1, leaf)
				r.Answer = append(r.Answer, t)
			case "servfail":
				w.s.Stat("fault_dns_tlsa_servfail")
				r.Rcode = dns.RcodeServerFailure
				return r, nil
			}
		}
	}
	return r, nil
}

// domKey maps a domain as maddy spells it to "dest" or "idn".
func domKey(domain string) string {
	d := strings.TrimSuffix(strings.ToLower(domain), ".")
	if d == destDomain {
		return "dest"
	}
	return "idn"
}

func rcptDomKey(rcpt string) string {
	if i := strings.LastIndex(rcpt, "@"); i >= 0 {
		return domKey(rcpt[i+1:])
	}
	return "dest"
}

func (w *world) stsMatches(host string) bool {
	p := mtasts.Policy{MX: w.stsMX}
	return p.Match(host)
}

func (w *world) deliver(i int, m *rmsg) {
	s := w.s
	ctx := context.Background()
	meta := &module.MsgMetadata{ID: m.id, OriginalFrom: m.from, SMTPOpts: smtp.MailOptions{UTF8: m.utf8, RequireTLS: m.requireTLS},
		TLSRequireOverride: m.tlsOverride, Quarantine: m.quarantine,
		Conn: &module.ConnState{RemoteAddr: &net.TCPAddr{IP: net.IPv4(198, 51, 100, 7), Port: 1234}}}
	mon := &actors.StatusMonitor{Inner: w.rt, Label: "target.remote", Reused: func() bool { return i > 0 }}
	if w.a.Prop == "C09" {
		mon.Prop = "C09"
	}
	s.Logf("driver: message %s rcpts=%v requiretls=%v override=%v quarantine=%v", m.id, m.rcpts, m.requireTLS, m.tlsOverride, m.quarantine)
	d, err := mon.Start(ctx, meta, m.from)
	if err != nil {
		m.startErr = err
		s.Logf("driver: %s Start failed: %v", m.id, errSummary(err))
		return
	}
	var accepted []string
	for _, r := range m.rcpts {
		if err := d.AddRcpt(ctx, r, smtp.RcptOptions{}); err != nil {
			m.rcptErr[r] = err
			s.Logf("driver: %s AddRcpt %s failed: %v", m.id, r, errSummary(err))
			continue
		}
		accepted = append(accepted, r)
	}
	if len(accepted) == 0 {
		d.Abort(ctx)
		return
	}
	if m.quarantineLate {
		meta.Quarantine = true
		s.Logf("driver: %s quarantined at the body stage", m.id)
	}
	h := textproto.Header{}
	h.Add("Subject", "rm "+m.id)
	h.Add("X-Sim-Msg", m.id)
	if m.tlsOverride {
		h.Add("TLS-Required", "No")
	}
	if m.atomic {
		// a caller that is not per-recipient aware (e.g. a pipeline fed by the
		// SMTP endpoint): one result for the whole message
		m.bodyErr = d.Body(ctx, h, buffer.MemoryBuffer{Slice: m.body()})
		m.bodyDone = true
		if m.bodyErr != nil {
			s.Logf("driver: %s Body failed: %v", m.id, errSummary(m.bodyErr))
			d.Abort(ctx)
		} else {
			d.Commit(ctx)
		}
		return
	}
	sc := &collector{m: m}
	bctx := ctx
	if m.ctxDone {
		// the caller's context is over by the time the body is handed in (a
		// deadline, a session that is going away): whatever the target makes of
		// that, every accepted recipient still gets exactly one result
		c, cancel := context.WithCancel(ctx)
		cancel()
		bctx = c
		s.Stat("fault_caller_context_done_before_body")
	}
	d.(module.PartialDelivery).BodyNonAtomic(bctx, sc, h, buffer.MemoryBuffer{Slice: m.body()})
	m.bodyDone = true
	anyOK := false
	for _, r := range accepted {
		if m.status[r] == nil {
			anyOK = true
		}
	}
	if anyOK {
		d.Commit(ctx)
	} else {
		d.Abort(ctx)
	}
}

type collector struct{ m *rmsg }

func (c *collector) SetStatus(rcpt string, err error) {
	if err != nil {
		c.m.status[rcpt] = err
	}
}

func (m *rmsg) body() []byte {
	b := []byte("body of " + m.id + "\r\n")
	if m.big {
		b = append(b, bytes.Repeat([]byte("0123456789abcdef0123456789abcdef0123456789abcdef0123456789abcde\r\n"), 200)...)
	}
	return b
}

func errSummary(err error) string {
	var se *exterrors.SMTPError
	if errors.As(err, &se) {
		return fmt.Sprintf("%d %d.%d.%d %s", se.Code, se.EnhancedCode[0], se.EnhancedCode[1], se.EnhancedCode[2], se.Message)
	}
	return err.Error()
}

// Run is the world function for C05 (and the remote parts of C09, C11, C16).
func Run(s *simrt.Sim, a *harness.Args, r *harness.Result) {
	log.DefaultLogger.Out = log.NopOutput{}
	w := &world{s: s, a: a, net: simnet.New()}
	s.MaxSteps = 100000
	s.PreemptBudget = []int{0, 0, 1}[s.T.Choose("knob", 3)]
	s.PreemptNum, s.PreemptDen = 1, 8
	remote.VerifSetPort("25")
	w.gen()
	w.net.SockBuf = []int{0, 0, 4096}[s.T.Choose("scen", 3)]
	s.Logf("scenario: %s sockbuf=%d", w.shape(), w.net.SockBuf)
	var berr error
	built := false
	s.Spawn("boot", nil, func() {
		berr = w.build()
		built = true
	})
	s.Run(time.Second, func() bool { return built })
	if !built || berr != nil {
		simrt.Harnessf("remote target init failed: %v", berr)
	}
	var listeners []net.Listener
	for _, m := range w.mxs {
		m := m
		if m.down {
			s.Stat("fault_mx_down")
			continue
		}
		l := w.net.Listen(m.host + ":25")
		listeners = append(listeners, l)
		s.Spawn("serve-"+m.host, nil, func() { m.mx.Serve(l) })
	}
	done := false
	if w.concurrent {
		// every message has a task of its own; which of them runs is the
		// scheduler's choice at every simulation point
		s.PreemptBudget = []int{1, 3, -1}[s.T.Choose("knob", 3)]
		s.PreemptNum, s.PreemptDen = 1, 3
		left := len(w.msgs)
		for i, m := range w.msgs {
			i, m := i, m
			s.Spawn("driver-"+m.id, nil, func() {
				if m.gap > 0 {
					simrt.Sleep(m.gap)
					simrt.Yield("driver:gap")
				}
				w.deliver(i, m)
				left--
				done = left == 0
			})
		}
	} else {
		s.Spawn("driver", nil, func() {
			for i, m := range w.msgs {
				if m.gap > 0 {
					simrt.Sleep(m.gap)
					simrt.Yield("driver:gap")
				}
				w.deliver(i, m)
			}
			done = true
		})
	}
	res := s.Run(30*time.Minute, func() bool { return done })
	for _, p := range s.Panics() {
		if p.Func != "HARNESS" {
			s.Violate(a.Prop+"/panic/"+p.Func, "task %s panicked: %s", p.Task, p.Value)
		}
	}
	if !done && len(s.Violations()) == 0 {
		simrt.Harnessf("driver did not finish (%v); parked=%v", res, s.ParkedKeys())
	}
	if len(s.Violations()) == 0 {
		switch a.Prop {
		case "C05":
			w.oracleC05()
		case "C06":
			w.oracleQuarantine()
		case "C11":
			w.oracleLimits()
		case "C16":
			w.oracleC16()
		}
	}
	closed := false
	s.Spawn("shutdown", nil, func() {
		w.rt.Close()
		for _, l := range listeners {
			l.Close()
		}
		closed = true
	})
	s.Run(time.Minute, func() bool { return closed })
	s.Run(time.Second, nil)

	r.Shape = w.shape()
	st := s.Stats()
	nf := 0
	for k, v := range st {
		if strings.HasPrefix(k, "fault_") {
			nf += v
		}
	}
	reused := 0
	for _, m := range w.mxs {
		for _, tx := range m.mx.Received() {
			if tx.ConnTxN > 1 {
				reused++
			}
		}
	}
	s.StatN("reused_connection_transactions", reused)
	r.Nontrivial = nf > 0 || reused > 0 || len(w.msgs) > 1
	var rec []string
	for _, m := range w.mxs {
		for _, tx := range m.mx.Received() {
			rec = append(rec, fmt.Sprintf("%s #%d conn%d/%d tls=%v cert=%v rcpts=%v params=%q final=%d", m.host, tx.N, tx.ConnID, tx.ConnTxN, tx.TLS, tx.Cert, tx.Rcpts, tx.MailParams, tx.FinalCode))
		}
	}
	r.Sample = map[string]interface{}{"scenario": r.Shape, "server_received": rec}
}

func (w *world) shape() string {
	var sb strings.Builder
	fmt.Fprintf(&sb, "dane=%v dnssec=%v ext=%v res=%v/%s ad=%v conc=%v ", w.useDANE, w.useDNSSEC, w.ext, w.resolvers, w.firstDown, w.zoneAD, w.concurrent)
	fmt.Fprintf(&sb, "sts=%v/%s/%v local=%v/%s/%s ovr=%v relax=%v lim=%d/%d%v dnsfail=%v stsidn=%s stsdelay=%v/%v|", w.useSTS, w.stsModeD["dest"], w.stsMX, w.useLocal, w.minTLS, w.minMX, w.override, w.relaxed, w.destLimit, w.msgLimit, w.msgScopes, w.dnsFailD, w.stsModeD["idn"], w.stsDelayD["dest"], w.stsDelayD["idn"])
	for _, m := range w.mxs {
		p := m.mx.Plan
		fmt.Fprintf(&sb, "[%s down=%v cname=%v tls=%v/%v cert=%v rtls=%v tlsa=%s]", m.host, m.down, m.cname, p.StartTLS, p.TLSFails, p.Cert, p.RequireTLS, m.tlsa)
	}
	for _, m := range w.msgs {
		fmt.Fprintf(&sb, "{%s r=%d rt=%v ov=%v q=%v/%v at=%v gap=%v}", m.id, len(m.rcpts), m.requireTLS, m.tlsOverride, m.quarantine, m.quarantineLate, m.atomic, m.gap)
	}
	return sb.String()
}

// oracleC05: every message the servers received content for satisfied the
// requirements in force for that message, judged from the server's side.
func (w *world) oracleC05() {
	s := w.s
	byID := map[string]*rmsg{}
	for _, m := range w.msgs {
		byID[m.id] = m
	}
	for _, mx := range w.mxs {
		for _, tx := range mx.mx.Received() {
			var m *rmsg
			for id, mm := range byID {
				if bytes.Contains(tx.Data, []byte("X-Sim-Msg: "+id+"\r\n")) {
					m = mm
				}
			}
			if m == nil {
				continue
			}
			reuse := "fresh"
			if tx.ConnTxN > 1 {
				reuse = "reused"
			}
			// RFC 7672: TLSA records bind only if the address records and the
			// TLSA RRset were DNSSEC-authenticated over a trusted (loopback)
			// resolver; unauthenticated or absent RRsets impose nothing.
			adTrusted := w.ext && w.answersFromLoopback() && w.zoneAD
			daneInForce := w.useDANE && adTrusted && (mx.tlsa == "ee-match" || mx.tlsa == "ee-mismatch" || mx.tlsa == "ta-match" || mx.tlsa == "unusable")
			daneMatch := false
			switch mx.tlsa {
			case "ee-match":
				daneMatch = tx.TLS
			case "ta-match":
				daneMatch = tx.TLS && tx.Cert == actors.CertValid
			}
			certOK := tx.TLS && (tx.Cert == actors.CertValid || (daneInForce && daneMatch))
			stsMode := w.stsModeD["dest"]
			if len(tx.Rcpts) > 0 {
				stsMode = w.stsModeD[rcptDomKey(tx.Rcpts[0])]
			}
			stsAvail := w.useSTS && (stsMode == "testing" || stsMode == "enforce")
			mxMatched := (stsAvail && w.stsMatches(mx.host)) || (w.useDNSSEC && adTrusted)
			fail := func(req, why string) {
				s.Violate("C05/policy-unsatisfied/"+req+"/"+reuse, "message %s (requiretls=%v tls-required-no=%v) was transmitted to %s over connection #%d (transaction %d on it, TLS=%v, certificate %v, TLSA %s, DNSSEC trusted=%v): %s", m.id, m.requireTLS, m.tlsOverride, mx.host, tx.ConnID, tx.ConnTxN, tx.TLS, tx.Cert, mx.tlsa, adTrusted, why)
			}
			if m.quarantine || m.quarantineLate {
				fail("quarantine", "quarantined messages must never be relayed")
				continue
			}
			policiesOff := m.tlsOverride && w.override
			if !policiesOff && w.useDANE && adTrusted && mx.aFail {
				// RFC 7672 2.2: address records whose lookup fails (bogus,
				// indeterminate) - the client must not connect to that host
				fail("dane-discovery-failed", "the A lookup for this MX failed (SERVFAIL) under DNSSEC-aware discovery - the host must not be used, an unauthenticated AAAA answer does not make up for it")
			}
			if !policiesOff && w.useDANE && adTrusted && mx.tlsa == "servfail" {
				fail("dane-discovery-failed", "the TLSA lookup for this MX failed (SERVFAIL) - delivery has to be deferred, not performed")
			}
			if !policiesOff && daneInForce {
				if !tx.TLS {
					fail("dane-tls", "DNSSEC-authenticated TLSA records exist, TLS is mandatory")
				}
				if mx.tlsa != "unusable" && !daneMatch {
					fail("dane-match", "usable TLSA records exist and none matches what the server presented")
				}
			}
			if !policiesOff {
				if w.useSTS && stsMode == "enforce" {
					if !w.stsMatches(mx.host) {
						fail("sts-mx", fmt.Sprintf("the domain's MTA-STS policy is in enforce mode and lists %v", w.stsMX))
					}
					if !certOK {
						fail("sts-tls", "MTA-STS enforce mode requires authenticated TLS")
					}
				}
				if w.useLocal {
					switch w.minTLS {
					case "encrypted":
						if !tx.TLS {
							fail("min-tls", "local policy requires at least encrypted TLS")
						}
					case "authenticated":
						if !certOK {
							fail("min-tls", "local policy requires authenticated TLS")
						}
					}
					if w.minMX == "mtasts" && !mxMatched {
						fail("min-mx", "local policy requires an MX authenticated by MTA-STS (or better)")
					}
					if w.minMX == "dnssec" && !(w.useDNSSEC && adTrusted) {
						fail("min-mx", "local policy requires a DNSSEC-authenticated MX record set")
					}
				}
			}
			if m.requireTLS {
				if !certOK {
					fail("requiretls", "REQUIRETLS demands authenticated TLS")
				}
				if !mxMatched {
					fail("requiretls", "REQUIRETLS demands an authenticated MX")
				}
				if !mx.mx.Plan.RequireTLS && !w.relaxed {
					fail("requiretls", "the server does not offer REQUIRETLS and relaxed mode is off")
				}
			}
		}
	}
	// discovery failure defers: a temporary MX lookup failure never turns into
	// a permanent error
	if w.dnsTempFail {
		for _, m := range w.msgs {
			for r, err := range m.rcptErr {
				if m.quarantine || !w.dnsFailD[rcptDomKey(r)] {
					continue
				}
				if !exterrors.IsTemporary(err) {
					s.Violate("C05/discovery-failure-not-deferred/permanent", "MX lookup failed temporarily, yet recipient %s of %s got a permanent error: %s", r, m.id, errSummary(err))
				}
			}
		}
	}
}

// oracleQuarantine (the remote-target clause of C06): a message flagged as
// quarantined - from the start or only at the body stage - is refused by the
// remote target on every path (per-recipient and atomic body).
func (w *world) oracleQuarantine() {
	byID := map[string]*rmsg{}
	for _, m := range w.msgs {
		byID[m.id] = m
	}
	for _, mx := range w.mxs {
		for _, tx := range mx.mx.Received() {
			for id, m := range byID {
				if (m.quarantine || m.quarantineLate) && bytes.Contains(tx.Data, []byte("X-Sim-Msg: "+id+"\r\n")) {
					path := "per-recipient"
					if m.atomic {
						path = "atomic"
					}
					w.s.Violate("C06/quarantine-relayed/"+path, "message %s is flagged as quarantined (late=%v), yet %s received it (transaction %d on connection #%d)", id, m.quarantineLate, mx.host, tx.ConnTxN, tx.ConnID)
				}
			}
		}
	}
}

// oracleLimits: after the history every destination permit is free again.
func (w *world) oracleLimits() {
	s := w.s
	w.oracleOverLimit()
	if w.msgLimit > 0 {
		// the message scopes: every permit taken in Start is back
		mdone, mgot := false, 0
		s.Spawn("limprobe-msg", nil, func() {
			g := w.rt.VerifLimits()
			ip := net.IPv4(198, 51, 100, 7)
			for i := 0; i < w.msgLimit; i++ {
				if err := g.TakeMsg(context.Background(), ip, "origin.example"); err != nil {
					break
				}
				mgot++
			}
			for i := 0; i < mgot; i++ {
				g.ReleaseMsg(ip, "origin.example")
			}
			mdone = true
		})
		s.Run(time.Minute, func() bool { return mdone })
		if mdone && mgot < w.msgLimit {
			s.Violate("C11/permit-leak/message-scopes/remote/"+strings.Join(w.msgScopes, "+"), "after the message history only %d of %d permits of the target's %v limit could be taken (message endings: %v)", mgot, w.msgLimit, w.msgScopes, w.endings())
		}
	}
	if w.destLimit == 0 {
		return
	}
	done := false
	got := 0
	s.Spawn("limprobe", nil, func() {
		g := w.rt.VerifLimits()
		for i := 0; i < w.destLimit; i++ {
			if err := g.TakeDest(context.Background(), destDomain); err != nil {
				break
			}
			got++
		}
		for i := 0; i < got; i++ {
			g.ReleaseDest(destDomain)
		}
		done = true
	})
	s.Run(time.Minute, func() bool { return done })
	if done && got < w.destLimit {
		s.Violate("C11/permit-leak/destination/remote", "after the message history only %d of %d destination permits for %s could be taken (message endings: %v)", got, w.destLimit, destDomain, w.endings())
	}
}

// oracleOverLimit: at no time do more deliveries hold a permit than the limit
// allows. Seen from the servers: a transaction from MAIL to the end of the
// message data lies inside the period in which its delivery holds the
// destination permit of that domain and the message-scope permits, so
// overlapping transactions of different messages are bounded by the limits
// (one message may have a transaction per domain at the same time).
func (w *world) oracleOverLimit() {
	s := w.s
	type span struct {
		msg, dom string
		a, b     int
	}
	var spans []span
	for _, mx := range w.mxs {
		for _, tx := range mx.mx.Received() {
			if tx.MailStep == 0 || len(tx.Rcpts) == 0 {
				continue
			}
			id := ""
			for _, ln := range strings.Split(string(tx.Data), "\r\n") {
				if strings.HasPrefix(ln, "X-Sim-Msg: ") {
					id = strings.TrimPrefix(ln, "X-Sim-Msg: ")
				}
			}
			spans = append(spans, span{id, rcptDomKey(tx.Rcpts[0]), tx.MailStep, tx.Step})
		}
	}
	for i, x := range spans {
		msgs := map[string]bool{x.msg: true}
		sameDom := map[string]bool{x.msg: true}
		for j, y := range spans {
			if i == j || y.msg == x.msg || y.a > x.b || x.a > y.b {
				continue
			}
			// y overlaps x; count those that are in progress at x's MAIL step
			if y.a <= x.a && x.a <= y.b {
				msgs[y.msg] = true
				if y.dom == x.dom {
					sameDom[y.msg] = true
				}
			}
		}
		if w.destLimit > 0 && len(sameDom) > w.destLimit {
			s.Violate("C11/over-limit/destination/remote", "%d messages had a transaction for destination %q in progress at the same time (controller step %d), the destination concurrency limit is %d", len(sameDom), x.dom, x.a, w.destLimit)
		}
		if w.msgLimit > 0 && len(msgs) > w.msgLimit {
			s.Violate("C11/over-limit/message-scopes/remote/"+strings.Join(w.msgScopes, "+"), "%d messages had transactions in progress at the same time (controller step %d), the %v concurrency limit is %d", len(msgs), x.a, w.msgScopes, w.msgLimit)
		}
	}
}

func (w *world) endings() []string {
	var ends []string
	for _, m := range w.msgs {
		e := "delivered"
		switch {
		case m.startErr != nil:
			e = "start-failed"
		case len(m.rcptErr) > 0:
			e = "rcpt-failed"
		case len(m.status) > 0 || m.bodyErr != nil:
			e = "data-failed"
		}
		ends = append(ends, e)
	}
	sort.Strings(ends)
	return ends
}

// oracleC16: every SMTP-annotated error the remote target hands to its caller
// has basic and enhanced codes of the same class, and that class agrees with
// whether the error is temporary.
func (w *world) oracleC16() {
	s := w.s
	check := func(stage string, err error) {
		if err == nil {
			return
		}
		var se *exterrors.SMTPError
		if !errors.As(err, &se) {
			// annotated through Fields() only (the partial-failure summary of
			// the atomic Body): the reply is built from smtp_code/smtp_enchcode
			f := exterrors.Fields(err)
			code, ok1 := f["smtp_code"].(int)
			ench, ok2 := f["smtp_enchcode"].(exterrors.EnhancedCode)
			if ok1 && ok2 && code/100 != int(ench[0]) {
				s.Violate("C16/class-mismatch/remote-"+stage, "remote target error annotated with basic code %d and enhanced code %d.%d.%d: %v", code, ench[0], ench[1], ench[2], f["smtp_msg"])
			}
			return
		}
		if se.Code/100 != int(se.EnhancedCode[0]) {
			s.Violate("C16/class-mismatch/remote-"+stage, "remote target error with basic code %d and enhanced code %d.%d.%d: %s", se.Code, se.EnhancedCode[0], se.EnhancedCode[1], se.EnhancedCode[2], se.Message)
		}
		if exterrors.IsTemporary(err) != (se.Code/100 == 4) {
			s.Violate("C16/retry-class-mismatch/remote-"+stage, "remote target error %d is temporary=%v: %s", se.Code, exterrors.IsTemporary(err), se.Message)
		}
	}
	for _, m := range w.msgs {
		check("start", m.startErr)
		for _, e := range m.rcptErr {
			check("rcpt", e)
		}
		for _, e := range m.status {
			check("data", e)
		}
		check("data-atomic", m.bodyErr)
	}
}
