#!/bin/sh
# sens.sh <prop> <sed-expression> <file-relative-to-repo>: apply a deliberate breakage to /repo, run the check, revert.
prop=$1; expr=$2; file=$3
cd /repo || exit 2
if [ -n "$(git status --porcelain)" ]; then echo "repo dirty"; exit 2; fi
sed -i "$expr" "$file"
git diff --stat | tail -1
(cd /verif && ./check $prop --no-evidence 2>&1 | grep -E "VIOLATION|HARNESS|KNOWN|key=" | cut -c1-300 | head -6)
git checkout -- .
