#!/usr/bin/env python3
"""Determinism self-test: the same seeds in fresh processes at several
GOMAXPROCS values must give identical event-log and schedule hashes.

  determinism.py <property> [--seeds N] [--procs P]
"""
import argparse, json, os, subprocess, sys
sys.path.insert(0, os.path.dirname(os.path.abspath(__file__)))
import check
from props import PROPS

def main():
    ap = argparse.ArgumentParser()
    ap.add_argument("prop")
    ap.add_argument("--seeds", type=int, default=60)
    ap.add_argument("--reps", type=int, default=2)
    ap.add_argument("--seed", type=int, default=777)
    a = ap.parse_args()
    cfg = PROPS[a.prop]
    bad = 0
    for part in cfg["parts"]:
        binary, _ = check.build_world(part["pkg"])
        tcfg = part["quick"]
        runs = []
        for gmp in (1, 4, 16):
            for rep in range(a.reps):
                out = os.path.join(check.BUILD, "det_%s_%d_%d.json" % (a.prop, gmp, rep))
                args = {"prop": a.prop, "world": part["world"], "mode": "batch", "tier": "quick", "seed": a.seed, "start": 0, "stride": 1,
                        "count": a.seeds, "out": out, "knobs": dict(tcfg.get("knobs", {})), "extra": dict(tcfg.get("extra", {}), hashes="1"),
                        "max_wall_s": 600, "minimise_s": 0}
                env = dict(check.ENV); env["VERIF_WORLD_ARGS"] = json.dumps(args); env["GOMAXPROCS"] = str(gmp)
                p = subprocess.Popen([binary, "-test.run", "^TestSim$", "-test.timeout", "0"], env=env, stdout=subprocess.PIPE, stderr=subprocess.STDOUT, text=True)
                runs.append((gmp, rep, p, out))
        res = []
        for gmp, rep, p, out in runs:
            so, _ = p.communicate()
            if p.returncode != 0:
                print("HARNESS-ERROR worker failed", so[-2000:]); sys.exit(2)
            s = json.load(open(out)); os.remove(out)
            res.append((gmp, rep, s["hashes"], s.get("stats", {})))
        ref = res[0][2]
        for gmp, rep, h, st in res[1:]:
            # a wall-clock budget may have cut the batches at different points:
            # compare the runs both processes did
            n = min(len(ref), len(h))
            if h[:n] != ref[:n]:
                d = [(x, y) for x, y in zip(ref, h) if x != y]
                print("NONDETERMINISTIC world=%s GOMAXPROCS=%d rep=%d: %d of %d runs differ; first: %s" % (part["world"], gmp, rep, len(d), len(ref), d[:2]))
                bad += 1
        print("world %s: %d runs x %d processes compared, ties=%s unordered_maps=%s" % (part["world"], len(ref), len(res), res[0][3].get("sched_key_ties", 0), res[0][3].get("unordered_map_iterations", 0)))
        ties = {k: v for k, v in res[0][3].items() if k.startswith("tie:")}
        if ties:
            print("  tied scheduling keys (two waiters indistinguishable to the scheduler): %s" % ties)
    sys.exit(1 if bad else 0)
main()
