#!/usr/bin/env python3
"""Reach measurement: which statements of the files a property is anchored in do the worlds of its check never execute?

  coverage.py <id> [--frac 0.25] [--files substr,substr]   -> prints uncovered blocks (source text) per anchored file

Builds every world of the property with -cover -coverpkg=<packages of the anchored files>, runs a fraction of the
quick batch in ONE worker process per part with -test.coverprofile, merges the profiles.  Line numbers of instrumented
files are those of the overlay's rewritten source (/verif/.build/src/...), which is what is printed.
This is a tool for deciding where a world must grow; it is not part of any check."""
import json, os, subprocess, sys, argparse, collections
sys.path.insert(0, os.path.dirname(os.path.abspath(__file__)))
import check  # noqa
from props import PROPS  # noqa

ap = argparse.ArgumentParser()
ap.add_argument("prop")
ap.add_argument("--frac", type=float, default=0.25)
ap.add_argument("--files", default="")
ap.add_argument("--pkgs", default="")
a = ap.parse_args()
VERIF, BUILD, REPO = check.VERIF, check.BUILD, check.REPO
props = {}
for l in open(os.path.join(VERIF, "properties.jsonl")):
    d = json.loads(l); props[d["id"]] = d
files = [f for f in props[a.prop]["anchors"]["files"] if f.endswith(".go")]
if a.files:
    files = [f for f in files if any(s in f for s in a.files.split(","))]
pkgs = sorted({"github.com/foxcpp/maddy/" + os.path.dirname(f) for f in files})
if a.pkgs:
    pkgs += ["github.com/foxcpp/maddy/" + p for p in a.pkgs.split(",")]
cfg = PROPS[a.prop]
overlay = None
hits = collections.defaultdict(int)   # (file, block) -> count
import shutil
SCR = "/tmp/verif_cov_repo"
def materialise():
    """go's cover tool does not read overlay-only files: build from a scratch copy of the tree with the overlay applied."""
    shutil.rmtree(SCR, ignore_errors=True)
    subprocess.run(["rsync", "-a", "--exclude", ".git", REPO + "/", SCR + "/"], check=True)
    for dst, src in json.load(open(os.path.join(BUILD, "overlay.json")))["Replace"].items():
        d = os.path.join(SCR, os.path.relpath(dst, REPO))
        os.makedirs(os.path.dirname(d), exist_ok=True)
        shutil.copy(src, d)
    shutil.copy(os.path.join(BUILD, "go.mod"), os.path.join(SCR, "go.mod"))
    shutil.copy(os.path.join(BUILD, "go.sum"), os.path.join(SCR, "go.sum"))
done_mat = False
for part in cfg["parts"]:
    check.build_world(part["pkg"])     # regenerates overlay + go.mod copy
    if not done_mat:
        materialise(); done_mat = True
    out = os.path.join(BUILD, "bin", part["pkg"] + ".cover.test")
    mod = os.path.join(BUILD, "go.mod")
    r = check.run([check.GO, "test", "-c", "-vet=off", "-cover", "-coverpkg=" + ",".join(pkgs),
                   "-o", out, "./internal/verifsim/worlds/" + part["pkg"] + "/"], cwd=SCR)
    if r.returncode != 0:
        print(r.stdout[-3000:]); sys.exit(2)
    tcfg = part["quick"]
    n = max(50, int(tcfg["runs"] * a.frac))
    res = os.path.join(BUILD, "cov_out.json")
    prof = os.path.join(BUILD, "cov_%s_%s.prof" % (a.prop, part["world"]))
    args = {"prop": a.prop, "world": part["world"], "mode": "batch", "tier": "quick", "seed": 20261001 ^ part.get("seed_salt", 0),
            "start": 0, "stride": 1, "count": n, "out": res, "knobs": dict(tcfg.get("knobs", {})), "extra": dict(tcfg.get("extra", {})),
            "max_wall_s": 300, "minimise_s": 1}
    env = dict(check.ENV); env["VERIF_WORLD_ARGS"] = json.dumps(args); env["GOMEMLIMIT"] = "6GiB"
    p = subprocess.run([out, "-test.run", "^TestSim$", "-test.timeout", "0", "-test.coverprofile", prof], env=env, cwd=BUILD,
                       stdout=subprocess.PIPE, stderr=subprocess.STDOUT, text=True)
    print("part %s/%s: %d runs requested, exit %d" % (part["pkg"], part["world"], n, p.returncode), file=sys.stderr)
    if not os.path.exists(prof):
        print(p.stdout[-2000:]); continue
    for ln in open(prof):
        if ln.startswith("mode:"):
            continue
        loc, nst, cnt = ln.rsplit(" ", 2)
        hits[loc] += int(cnt)
    os.remove(out)
shutil.rmtree(SCR, ignore_errors=True)
ov = json.load(open(os.path.join(BUILD, "overlay.json")))["Replace"]
for f in files:
    full = os.path.join(REPO, f)
    src = ov.get(full, full)
    lines = open(src).read().split("\n")
    blocks = [(k, v) for k, v in hits.items() if k.startswith("github.com/foxcpp/maddy/" + f + ":")]
    tot = len(blocks); unc = [k for k, v in blocks if v == 0]
    print("=== %s: %d blocks, %d never executed%s" % (f, tot, len(unc), "  (rewritten source " + src + ")" if src != full else ""))
    def keyf(k):
        s = k.split(":")[1].split(",")[0].split(".")
        return int(s[0]), int(s[1])
    for k in sorted(unc, key=keyf):
        rng = k.split(":")[1]
        s, e = rng.split(",")
        sl, el = int(s.split(".")[0]), int(e.split(".")[0])
        txt = [x.strip() for x in lines[sl - 1:el] if x.strip() and "simrt.Yield" not in x]
        print("  %s  %s" % (rng, " | ".join(txt)[:220]))
