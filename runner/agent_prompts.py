#!/usr/bin/env python3
"""Generates the prompts handed to mutation / benign-change sub-agents (they get nothing from /verif: only the
property text, the list of earlier changes and a scratch worktree).

  agent_prompts.py mutation <round> <C01> [<C02> ...]   -> /tmp/agent<round>_prompt_<id>.txt, worktree /tmp/wt<round>_<id>, results /tmp/mut<round>_<id>/{1,2}
  agent_prompts.py benign <C01> [...]                   -> /tmp/benign_prompt_<id>.txt, worktree /tmp/wtb_<id>, results /tmp/benign_<id>/{1,2}
The worktrees are created with: git -C /repo worktree add --detach <dir> HEAD"""
import glob, json, os, sys
VERIF = os.path.dirname(os.path.dirname(os.path.abspath(__file__)))
props = {}
for l in open(os.path.join(VERIF, "properties.jsonl")):
    d = json.loads(l); props[d["id"]] = d

MUT_HEAD = 'You are helping test a verification effort by acting as a "mutation author" for the open-source mail server foxcpp/maddy (Go). You work ONLY inside your own scratch git worktree at /tmp/wt{ROUND}_{PID} (a checkout of the repository). Do NOT read or write anything under /verif or /repo, and do not look at other /tmp/wt_* directories; do not commit anything.\n\n'
MUT_TASK = 'Your task: produce TWO independent, different source changes to maddy (non-test .go files only) each of which BREAKS this property while\n (a) the tree still compiles (`go build ./...`), and\n (b) the existing test suite of the repository still passes unchanged (`go test -vet=off -count=1 ./...` — at minimum all packages you touched and their dependants; ideally everything), and\n (c) the breakage needs something SPECIFIC to manifest: a particular interleaving, a crash or fault at a particular point, a multi-step sequence of operations, an unusual input, or two cooperating sites that each look fine alone. Do NOT make changes that ordinary use would expose at once (e.g. "always drop the message"). Prefer realistic regressions a maintainer could plausibly introduce (a refactoring slip, a reordered statement, a wrong condition, an off-by-one, a missing sync, a lost update).\n (d) Keep each change small (a few lines).\n\nFor each change deliver, in the directory /tmp/mut{ROUND}_{PID}/1 and /tmp/mut{ROUND}_{PID}/2 respectively:\n - patch.diff : `git diff` of the change against the worktree\'s HEAD (apply-able with `git apply`),\n - a demonstration: a Go test file (demo_test.go, stating in a header comment which package directory it must be copied into) or a small program, which FAILS with the change applied and PASSES without it. The demonstration may use unexported identifiers of the package (same-package test). It should run offline in a few seconds.\n - notes.md : which clause of the property is broken, what is needed for it to manifest, and the exact commands you ran (with and without the change) and their results.\nAfter producing each patch, revert the worktree to HEAD (`git checkout -- .` and remove the demo test from the tree) so the two changes are independent. Leave the worktree clean at the end.\n\nEnvironment: no network. Use for every shell command:\n  export GOFLAGS=-mod=mod GOPROXY=off GOSUMDB=off\nThe default `go` (1.23) builds and tests the repository offline. Look at the existing _test.go files next to the anchored files (and internal/testutils) for helpers you can reuse in the demonstration. Note: `go build ./...` fails for cmd/maddy-pam-helper on the clean tree too (missing system header); exclude that package. Read the anchored files carefully before choosing the mutations. Verify (b) yourself by running the tests with the change applied, and report honestly if something does not hold.\n\nFinish with a short summary of the two changes (files, what they do, what triggers them).\n\n'
BEN_HEAD = 'You are helping test a verification effort for the open-source mail server foxcpp/maddy (Go) by acting as a "benign change author". You work ONLY inside your own scratch git worktree at /tmp/wtb_{PID} (a checkout of the repository). Do NOT read or write anything under /verif or /repo, and do not look at other /tmp/wt* directories; do not commit anything.\n\n'
BEN_TASK = "Your task: produce TWO independent, different source changes to maddy (non-test .go files only) that a maintainer might plausibly make and that PRESERVE this property - the property must still hold for every input, schedule, crash point and history after the change - while they visibly alter implementation details in the code the property is anchored in. The purpose is to find out whether an external checker of this property over-fits the current implementation, i.e. raises a false alarm on code that is still correct. So aim at changes that such a checker could trip over, for example:\n - renaming internal or temporary files, changing the order in which independent files are written or removed (where the property does not depend on it), adding an extra fsync or an extra directory sync, writing a file in two steps instead of one;\n - changing the wording of log messages, SMTP reply texts or report texts (keeping the codes and classes correct), adding harmless header fields or parameters;\n - restructuring goroutines, locks, channels or timers (e.g. replacing a channel by a mutex+cond, adding a worker, splitting a function, buffering a channel, taking an extra lock), changing internal constants such as poll intervals, batch sizes or buffer sizes where the documentation does not promise them;\n - changing the order of independent calls (e.g. checks for two unrelated conditions), doing an allowed extra call (an extra Abort-free no-op, an extra lookup), retrying an idempotent internal step;\n - stricter-but-allowed behaviour (refusing earlier, closing a connection instead of reusing it, deferring instead of sending where the property allows either).\nEach change should be between a few and ~40 lines, must compile (`go build ./...`), and the existing test suite must still pass unchanged (`go test -vet=off -count=1 ./...` - at minimum all packages you touched and their dependants; ideally everything). Think carefully about whether the property REALLY still holds after your change, including under crashes, concurrency and retries where the property speaks about them; if in doubt choose a safer change. Do not weaken the property's guarantees in any way.\n\nFor each change deliver, in the directory /tmp/benign_{PID}/1 and /tmp/benign_{PID}/2 respectively:\n - patch.diff : `git diff` of the change against the worktree's HEAD (apply-able with `git apply`),\n - notes.md : what was changed, which implementation detail an over-fitted checker might depend on, and a careful argument why every clause of the property still holds (also under crash/concurrency/retry where applicable), plus the exact commands you ran and their results.\nAfter producing each patch, revert the worktree to HEAD (`git checkout -- .`) so the two changes are independent. Leave the worktree clean at the end.\n\nEnvironment: no network. Use for every shell command:\n  export GOFLAGS=-mod=mod GOPROXY=off GOSUMDB=off\nThe default `go` (1.23) builds and tests the repository offline. Note: `go build ./...` fails for cmd/maddy-pam-helper on the clean tree too (missing system header); exclude that package. Other processes on this machine may run the repository's test suite at the same time and some tests listen on fixed TCP ports or depend on file-watch timing (internal/table TestFileReload); if you see an unexplained one-off failure or timeout, re-run that package alone before drawing conclusions.\n\nFinish with a short summary of the two changes (files, what they do, why the property still holds).\n"


def prop_text(pid, intro):
    p = props[pid]
    mech = "; ".join("%s (%s)" % (m["name"], m["where"]) for m in p["anchors"].get("mechanism", []))
    q = p["quantifier"]["text"] if isinstance(p["quantifier"], dict) else p["quantifier"]
    return "%s\n\n%s — %s\n\nStatement: %s\n\nQuantified over: %s\n\nAnchored in files: %s\n\nMechanisms meant to make it hold: %s\n\n\n" % (
        intro, pid, p["title"], p["statement"], q, ", ".join(p["anchors"]["files"]), mech)


def main():
    kind = sys.argv[1]
    if kind == "mutation":
        rnd, ids = sys.argv[2], sys.argv[3:]
        for pid in ids:
            prev = ["- " + json.load(open(f))["breaks"] for f in sorted(glob.glob(os.path.join(VERIF, "seeded", pid + "-*", "meta.json")))]
            extra = ("ADDITIONAL CONSTRAINT FOR THIS ROUND: earlier rounds already produced the following changes for this property; produce changes of a DIFFERENT kind "
                     "(different function, different clause of the property and different trigger where possible):\n" + "\n".join(prev) +
                     "\nPrefer changes whose manifestation needs a specific interleaving, timer expiry, crash point, fault at a particular step, or multi-step history rather than a specific input value; "
                     "and prefer code paths the earlier changes did not touch (look at ALL anchored files and at what they call).\n")
            txt = MUT_HEAD.replace("{PID}", pid).replace("{ROUND}", rnd) + prop_text(pid, "The property you must break is:") + MUT_TASK.replace("{PID}", pid).replace("{ROUND}", rnd) + extra
            open("/tmp/agent%s_prompt_%s.txt" % (rnd, pid), "w").write(txt)
            for n in "12":
                os.makedirs("/tmp/mut%s_%s/%s" % (rnd, pid, n), exist_ok=True)
    else:
        for pid in sys.argv[2:]:
            txt = BEN_HEAD.replace("{PID}", pid) + prop_text(pid, "The property under test is:") + BEN_TASK.replace("{PID}", pid)
            open("/tmp/benign_prompt_%s.txt" % pid, "w").write(txt)
            for n in "12":
                os.makedirs("/tmp/benign_%s/%s" % (pid, n), exist_ok=True)


main()
