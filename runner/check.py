#!/usr/bin/env python3
"""Driver for the deterministic-simulation checks.

  check.py <property> [--tier quick|thorough] [--replay FILE] [--seed N]

exit 0: property held on everything explored (KNOWN-FINDING lines possible)
exit 1: `VIOLATION property=<id> replay=<path>` printed
exit 2: `HARNESS-ERROR ...` (build trouble, watchdog, internal assertion) - never a verdict
"""
import argparse
import concurrent.futures, hashlib, json, os, subprocess, sys, time, shutil, re

VERIF = os.path.dirname(os.path.dirname(os.path.abspath(__file__)))
REPO = os.environ.get("VERIF_REPO", "/repo")
# VERIF_BUILD lets a second, concurrent user of this tree (self-tests) build elsewhere
BUILD = os.environ.get("VERIF_BUILD") or os.path.join(VERIF, ".build")
GO = "go1.26.8"
NPROC = int(os.environ.get("VERIF_WORKERS", "16"))

ENV = dict(os.environ)
ENV.update({"GOFLAGS": "-mod=mod", "GOPROXY": "off", "GOSUMDB": "off", "GOTOOLCHAIN": "local"})

sys.path.insert(0, os.path.dirname(os.path.abspath(__file__)))
from props import PROPS  # noqa: E402


def harness_error(msg):
    print("HARNESS-ERROR " + msg, flush=True)
    sys.exit(2)


def run(cmd, cwd=None, timeout=None):
    return subprocess.run(cmd, cwd=cwd, env=ENV, stdout=subprocess.PIPE, stderr=subprocess.STDOUT, text=True, timeout=timeout)


def build_tool():
    tool = os.path.join(BUILD, "mkoverlay")
    src = os.path.join(VERIF, "tools/mkoverlay/main.go")
    os.makedirs(BUILD, exist_ok=True)
    if not os.path.exists(tool) or os.path.getmtime(tool) < os.path.getmtime(src):
        r = run([GO, "build", "-o", tool, "."], cwd=os.path.join(VERIF, "tools/mkoverlay"))
        if r.returncode != 0:
            harness_error("building mkoverlay failed:\n" + r.stdout)
    return tool


def build_world(pkg):
    """Regenerates the overlay from /repo's working tree and builds one world."""
    t0 = time.time()
    tool = build_tool()
    r = run([tool, "-repo", REPO, "-verif", VERIF, "-out", BUILD])
    if r.returncode != 0:
        harness_error("overlay generation failed:\n" + r.stdout)
    # private go.mod/go.sum copy (never touch /repo/go.mod); extra requirements
    mod = os.path.join(BUILD, "go.mod")
    shutil.copy(os.path.join(REPO, "go.mod"), mod)
    shutil.copy(os.path.join(REPO, "go.sum"), os.path.join(BUILD, "go.sum"))
    r = run([GO, "mod", "edit", "-modfile=" + mod, "-require=github.com/anishathalye/porcupine@v1.3.0"], cwd=REPO)
    if r.returncode != 0:
        harness_error("go mod edit failed:\n" + r.stdout)
    drf = os.path.join(BUILD, "dep_replaces.json")
    if os.path.exists(drf):
        for m, d in json.load(open(drf)).items():
            r = run([GO, "mod", "edit", "-modfile=" + mod, "-replace=%s=%s" % (m, d)], cwd=REPO)
            if r.returncode != 0:
                harness_error("go mod edit -replace failed:\n" + r.stdout)
    extra = os.path.join(VERIF, "runner/extra.sum")
    if os.path.exists(extra):
        with open(os.path.join(BUILD, "go.sum"), "a") as f:
            f.write(open(extra).read())
    os.makedirs(os.path.join(BUILD, "bin"), exist_ok=True)
    out = os.path.join(BUILD, "bin", pkg + ".test")
    r = run([GO, "test", "-c", "-vet=off", "-modfile=" + mod, "-overlay=" + os.path.join(BUILD, "overlay.json"),
             "-o", out, "./internal/verifsim/worlds/" + pkg + "/"], cwd=REPO)
    if r.returncode != 0:
        harness_error("building world %s against the current tree failed (exit %d):\n%s" % (pkg, r.returncode, r.stdout[-6000:]))
    return out, time.time() - t0


def known_findings():
    """Reads known_findings.txt: returns {key: text} of `finding:` lines for all properties."""
    out = {}
    p = os.path.join(VERIF, "known_findings.txt")
    if not os.path.exists(p):
        return out
    for ln in open(p):
        ln = ln.strip()
        if not ln.startswith("finding:"):
            continue
        m = re.search(r"key=(\S+)", ln)
        if m:
            out[m.group(1)] = ln
    return out


def worker_cmd(binary, args):
    env = dict(ENV)
    env["VERIF_WORLD_ARGS"] = json.dumps(args)
    env["GOMEMLIMIT"] = "3GiB"
    return subprocess.Popen([binary, "-test.run", "^TestSim$", "-test.timeout", "0", "-test.count", "1"],
                            env=env, stdout=subprocess.PIPE, stderr=subprocess.STDOUT, text=True, cwd=BUILD)


def crash_info(output):
    """If a worker died from a Go panic whose innermost non-runtime frame is maddy (not harness) code, return the function name."""
    i = output.find("panic:")
    if i < 0:
        return None
    msg = output[i:i + 200].splitlines()[0]
    for ln in output[i:].splitlines():
        ln = ln.strip()
        if ln.startswith("github.com/foxcpp/maddy/"):
            if "/verifsim/" in ln:
                return None
            fn = ln[len("github.com/foxcpp/maddy/"):]
            fn = fn.split("(0x")[0].split("({")[0]
            fn = fn.rsplit("/", 1)[-1]
            fn = re.sub(r"\.func\d+(\.\d+)*$", "", fn)
            return fn, msg
        if ln.startswith("created by"):
            break
    return None


def repo_head():
    r = run(["git", "-C", REPO, "rev-parse", "HEAD"])
    d = run(["git", "-C", REPO, "status", "--porcelain"])
    return r.stdout.strip() + ("+dirty" if d.stdout.strip() else "")


def main():
    ap = argparse.ArgumentParser()
    ap.add_argument("prop")
    ap.add_argument("--tier", default=os.environ.get("VERIF_TIER", "quick"))
    ap.add_argument("--replay")
    ap.add_argument("--seed", type=int, default=None)
    ap.add_argument("--verbose", action="store_true")
    ap.add_argument("--scale", type=float, default=float(os.environ.get("VERIF_SCALE", "1")))
    ap.add_argument("--no-evidence", action="store_true")
    a = ap.parse_args()
    prop = a.prop
    if prop not in PROPS:
        harness_error("unknown property " + prop)
    cfg = PROPS[prop]
    tier = a.tier if a.tier in ("quick", "thorough") else "quick"
    seed = a.seed
    if seed is None:
        try:
            seed = int(os.environ.get("VERIF_SEED", ""))
        except ValueError:
            seed = cfg.get("seed", 20261001)
    seed &= (1 << 63) - 1
    t_start = time.time()

    # ------------------------------------------------------------ replay
    if a.replay:
        rf = json.load(open(a.replay))
        part = None
        for p in cfg["parts"]:
            if p["world"] == rf["world"]:
                part = p
        if part is None:
            harness_error("replay file names world %s which %s does not use" % (rf["world"], prop))
        binary, _ = build_world(part["pkg"])
        if rf.get("crash"):
            out = os.path.join(BUILD, "replay_out.json")
            args = {"prop": prop, "world": rf["world"], "mode": "one", "seed": rf["batch_seed"], "start": rf["index"], "out": out, "knobs": rf.get("knobs") or {}, "extra": {}}
            if rf.get("tape"):
                # the crash happened while this tape was being replayed
                args = {"prop": prop, "world": rf["world"], "mode": "replay", "replay": os.path.abspath(a.replay), "out": out}
            p = worker_cmd(binary, args)
            so, _ = p.communicate()
            ci = crash_info(so) if p.returncode != 0 else None
            if ci and "%s/process-crash/%s" % (prop, ci[0]) == rf["violation_key"]:
                print("process crash reproduced: " + ci[1])
                print("VIOLATION property=%s replay=%s" % (prop, os.path.abspath(a.replay)))
                sys.exit(1)
            if p.returncode != 0 and not ci:
                harness_error("replay process failed (exit %s):\n%s" % (p.returncode, so[-3000:]))
            print("not reproduced (no crash on this replay)")
            sys.exit(0)
        out = os.path.join(BUILD, "replay_out.json")
        args = {"prop": prop, "world": rf["world"], "mode": "replay", "replay": os.path.abspath(a.replay), "out": out, "verbose": a.verbose}
        p = worker_cmd(binary, args)
        so, _ = p.communicate()
        if p.returncode != 0 or not os.path.exists(out):
            harness_error("replay process failed (exit %s):\n%s" % (p.returncode, so[-4000:]))
        res = json.load(open(out))
        if a.verbose:
            print(so)
        print(json.dumps({k: v for k, v in res.items() if k != "trace"}))
        if res.get("harness"):
            harness_error(res["harness"])
        if res.get("reproduced"):
            if not res.get("hash_match"):
                print("NOTE: violation reproduced but the event-log hash differs from the recorded one")
            print("VIOLATION property=%s replay=%s" % (prop, os.path.abspath(a.replay)))
            sys.exit(1)
        print("not reproduced (property holds on this replay)")
        sys.exit(0)

    # ------------------------------------------------------------ batch
    known = known_findings()
    total = {"runs": 0, "nontrivial": 0, "distinct": set(), "scheds": set(), "stats": {}, "steps": 0, "sim_time_s": 0.0,
             "violations": [], "samples": [], "harness": [], "leaks": 0, "build_s": 0.0, "worker_wall_s": 0.0}
    parts_desc = []
    for part in cfg["parts"]:
        binary, bs = build_world(part["pkg"])
        total["build_s"] += bs
        tcfg = part[tier]
        nruns = max(1, int(tcfg["runs"] * a.scale))
        nw = min(NPROC, nruns)
        per = (nruns + nw - 1) // nw
        args_seed = seed ^ part.get("seed_salt", 0)
        max_wall = int(tcfg.get("max_wall_s", 600) * max(1.0, a.scale))

        def run_slot(j):
            """Worker slot j runs its share of the batch (runs j, j+nw, ...). A worker process that has accumulated
            too much memory (goroutines left behind by crashed incarnations keep their scenario alive) stops early
            and says where; a fresh process goes on from there."""
            out = os.path.join(BUILD, "out_%s_%s_%d.json" % (prop, part["world"], j))
            k0, remaining, res = 0, max_wall, []
            while k0 < per:
                if os.path.exists(out):
                    os.remove(out)
                args = {"prop": prop, "world": part["world"], "mode": "batch", "tier": tier, "seed": args_seed,
                        "start": j + k0 * nw, "stride": nw, "count": per - k0, "out": out, "knobs": dict(tcfg.get("knobs", {})),
                        "extra": dict(tcfg.get("extra", {})), "max_wall_s": max(1, int(remaining)),
                        "minimise_s": tcfg.get("minimise_s", 20)}
                p = worker_cmd(binary, args)
                so, _ = p.communicate()
                if p.returncode != 0 or not os.path.exists(out):
                    res.append((p.returncode, so, None))
                    break
                sm = json.load(open(out))
                os.remove(out)
                if os.path.exists(out + ".cur"):
                    os.remove(out + ".cur")
                res.append((0, so, sm))
                ra = sm.get("resume_at", 0)
                if ra <= 0:
                    break
                k0 += ra
                remaining -= sm.get("wall_s", 0)
                if remaining <= 0:
                    break
            return j, out, res

        t0 = time.time()
        with concurrent.futures.ThreadPoolExecutor(max_workers=nw) as ex:
            slots = list(ex.map(run_slot, range(nw)))
        nproc_used = 0
        for j, out, res in slots:
          for rc, so, s in res:
            nproc_used += 1
            if s is None:
                ci = crash_info(so)
                cur = out + ".cur"
                if ci and os.path.exists(cur):
                    # the simulated process (= this worker) was killed by a panic in maddy code
                    c = json.load(open(cur))
                    # (the run in progress may have been a replay during the
                    # minimisation of another violation: then its tape is in
                    # the breadcrumb and the crash is reproduced from it)
                    tape = c.get("tape") if c.get("replay") else None
                    if not c.get("replay") or tape:
                        total["violations"].append({"key": "%s/process-crash/%s" % (prop, ci[0]), "detail": "maddy crashed the process: %s" % ci[1],
                                                    "seed": c["seed"], "index": c["index"], "knobs": c.get("knobs") or {}, "tape": tape, "trace": so[so.find("panic:"):][:3000].splitlines(),
                                                    "event_hash": "", "tape_len": sum(len(x) for x in tape.values()) if tape else 0, "orig_tape_len": 0, "world": part["world"], "crash": True, "batch_seed": args_seed})
                        total["runs"] += 1
                        continue
                total["harness"].append("worker %d of world %s exited %s:\n%s" % (j, part["world"], rc, so[-5000:]))
                continue
            total["runs"] += s["runs"]
            total["nontrivial"] += s["nontrivial"]
            total["distinct"].update(s.get("distinct") or [])
            total["scheds"].update(s.get("scheds") or [])
            for k, v in (s.get("stats") or {}).items():
                total["stats"][k] = total["stats"].get(k, 0) + v
            total["steps"] += s["steps"]
            total["sim_time_s"] += s["sim_time_s"]
            total["leaks"] += s.get("bubble_leaks", 0)
            for v in s.get("violations") or []:
                v["world"] = part["world"]
                total["violations"].append(v)
            for sm in (s.get("samples") or [])[:1]:
                if len(total["samples"]) < 4:
                    total["samples"].append(sm)
            total["harness"].extend(s.get("harness_errors") or [])
        total["worker_wall_s"] += time.time() - t0
        parts_desc.append({"world": part["world"], "runs_requested": nruns, "workers": nw, "worker_processes": nproc_used})

    if total["harness"]:
        harness_error("%d harness errors; first:\n%s" % (len(total["harness"]), total["harness"][0]))

    # ------------------------------------------------------------ verdict
    seen_known, new = {}, {}
    for v in total["violations"]:
        if v["key"] in known:
            seen_known.setdefault(v["key"], v)
        else:
            if v["key"] not in new or v["tape_len"] < new[v["key"]]["tape_len"]:
                new[v["key"]] = v
    head = repo_head()
    replays = []
    os.makedirs(os.path.join(VERIF, "replays", prop), exist_ok=True)
    for key, v in list(seen_known.items()) + list(new.items()):
        fn = os.path.join(VERIF, "replays", prop, re.sub(r"[^A-Za-z0-9_.-]+", "_", key) + "-%d.json" % v["seed"])
        rf = {"property": prop, "world": v["world"], "tier": tier, "seed": v["seed"], "index": v["index"], "knobs": v.get("knobs") or {},
              "extra": {}, "tape": v["tape"], "violation_key": key, "detail": v["detail"], "event_hash": v["event_hash"],
              "trace": v.get("trace") or [], "repo_head": head, "go": GO, "minimised": v.get("minimised", False),
              "tape_len": v["tape_len"], "orig_tape_len": v["orig_tape_len"], "crash": v.get("crash", False), "batch_seed": v.get("batch_seed")}
        json.dump(rf, open(fn, "w"), indent=1, ensure_ascii=False)
        replays.append((key, fn))
    wall = time.time() - t_start

    # ------------------------------------------------------------ evidence
    if not a.no_evidence:
        faults = {k: v for k, v in total["stats"].items() if k.startswith("fault_") or k.startswith("crash_")}
        probes = {k: v for k, v in total["stats"].items() if not (k.startswith("fault_") or k.startswith("crash_"))}
        ev = {
            "property_id": prop, "tier": tier, "seed": seed, "level": cfg["level"],
            "coverage": {
                "evaluations": total["runs"],
                "distinct_nontrivial": len(total["distinct"]),
                "rule": cfg["rule"],
                "samples": total["samples"] or [{"note": "no non-trivial sample recorded"}],
                "runs_per_hour": int(total["runs"] / max(total["worker_wall_s"], 1e-6) * 3600),
                "seeds": "run i of the batch uses splitmix(seed, i); seed=%d" % seed,
                "simulated_time_s": round(total["sim_time_s"], 1),
                "controller_steps": total["steps"],
                "faults_fired": faults,
                "probes": probes,
                "distinct_schedules": len(total["scheds"]),
                "nontrivial_runs": total["nontrivial"],
                "components_real": cfg["real"],
                "components_stub": cfg["stub"],
                "parts": parts_desc,
                "bubble_leaks": total["leaks"],
                "known_findings_seen": sorted(seen_known.keys()),
                "build_s": round(total["build_s"], 1),
                "repo_head": head,
                "exhaustive": False,
            },
            "assumptions": cfg["assumptions"],
            "wall_s": round(wall, 1),
            "violations": len(new),
        }
        os.makedirs(os.path.join(VERIF, "evidence"), exist_ok=True)
        json.dump(ev, open(os.path.join(VERIF, "evidence", prop + ".json"), "w"), indent=1, ensure_ascii=False, default=str)

    print("%s tier=%s seed=%d runs=%d distinct_nontrivial=%d schedules=%d sim_time=%.0fs wall=%.1fs (build %.1fs)" % (
        prop, tier, seed, total["runs"], len(total["distinct"]), len(total["scheds"]), total["sim_time_s"], wall, total["build_s"]))
    for key, v in seen_known.items():
        print("KNOWN-FINDING: property=%s key=%s %s" % (prop, key, v["detail"][:300]))
    if new:
        for key, fn in replays:
            if key in new:
                print("  key=%s seed=%d tape=%d(draws, from %d) :: %s" % (key, new[key]["seed"], new[key]["tape_len"], new[key]["orig_tape_len"], new[key]["detail"][:400]))
                print("VIOLATION property=%s replay=%s" % (prop, fn))
        sys.exit(1)
    sys.exit(0)


if __name__ == "__main__":
    try:
        main()
    except SystemExit:
        raise
    except Exception as e:  # any crash of the driver is harness trouble
        import traceback
        traceback.print_exc()
        harness_error("driver crashed: %r" % (e,))
