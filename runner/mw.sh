#!/bin/sh
# mw.sh <patch.diff> <prop> [<prop>...]: mutant_wt.sh with a build directory of its own (several evaluations can run side by side)
export VERIF_BUILD=/tmp/mb_$$
export GOFLAGS=-mod=mod GOPROXY=off GOSUMDB=off GOTOOLCHAIN=local
sh /verif/runner/mutant_wt.sh "$@"
rm -rf $VERIF_BUILD
