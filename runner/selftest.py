#!/usr/bin/env python3
"""Self-test of the machinery (not a registered check; takes about an hour):

  selftest.py [--skip-determinism] [--only seeded|benign|determinism] [--props C01,C02]

  1. determinism.py for every claimed property,
  2. every seeded change under /verif/seeded must be caught (exit 1 with a VIOLATION line of its property)
     by the quick tier of the checks named in its meta.json,
  3. every property-preserving change under /verif/benign must pass (exit 0) the checks named in its meta.json.

Changes are applied in a scratch worktree of /repo HEAD (VERIF_REPO), never in /repo. Builds go to a
directory of its own (VERIF_BUILD, removed at the end) so that checks run from /verif meanwhile are not disturbed;
within the self-test everything runs sequentially.
Exit 0 if everything is as expected, 1 otherwise."""
import argparse, glob, json, os, re, subprocess, sys

HERE = os.path.dirname(os.path.abspath(__file__))
VERIF = os.path.dirname(HERE)
sys.path.insert(0, HERE)
from props import PROPS


BUILD = "/tmp/selftest_build_%d" % os.getpid()
os.environ["VERIF_BUILD"] = BUILD


def run_in_worktree(patch, props, seeds=(None,)):
    wt = "/tmp/selftest_wt_%d" % os.getpid()
    subprocess.run(["git", "-C", "/repo", "worktree", "add", "--detach", wt, "HEAD", "-q"], check=True)
    out = []
    try:
        p = subprocess.run(["git", "-C", wt, "apply", patch], capture_output=True, text=True)
        if p.returncode != 0:
            return None, "patch does not apply: " + p.stderr.strip()[:200]
        env = dict(os.environ, VERIF_REPO=wt)
        for prop in props:
            for sd in seeds:
                c = subprocess.run([os.path.join(VERIF, "check"), prop, "--no-evidence"] + (["--seed", str(sd)] if sd is not None else []), env=env, capture_output=True, text=True, timeout=3600)
                keys = re.findall(r"key=(\S+)", c.stdout)
                out.append((prop, c.returncode, keys[:3]))
    finally:
        subprocess.run(["git", "-C", "/repo", "worktree", "remove", "--force", wt])
    return out, ""


def main():
    ap = argparse.ArgumentParser()
    ap.add_argument("--only", default="")
    ap.add_argument("--props", default="")
    ap.add_argument("--skip-determinism", action="store_true")
    ap.add_argument("--seeds", default="", help="seeded changes only: run each with these batch seeds (comma separated) and report how many catch it (detection margin)")
    a = ap.parse_args()
    sel = set(a.props.split(",")) if a.props else None
    bad = 0
    if a.only in ("", "determinism") and not a.skip_determinism:
        for prop in PROPS:
            if sel and prop not in sel:
                continue
            p = subprocess.run([sys.executable, os.path.join(HERE, "determinism.py"), prop, "--seeds", "120", "--reps", "2"], capture_output=True, text=True)
            tail = [l for l in p.stdout.splitlines() if l.startswith(("world", "NONDET", "  tied"))]
            ok = p.returncode == 0 and not any("tied" in l for l in tail)
            print("determinism %s: %s" % (prop, "ok" if ok else "FAILED"), "; ".join(l[:120] for l in tail if not ok))
            bad += 0 if ok else 1
    if a.only in ("", "seeded"):
        for d in sorted(glob.glob(os.path.join(VERIF, "seeded", "*"))):
            meta = json.load(open(os.path.join(d, "meta.json")))
            prop = meta["property"]
            if sel and prop not in sel:
                continue
            patch = os.path.join(d, "patch_rebased.diff")
            if not os.path.exists(patch):
                patch = os.path.join(d, "patch.diff")
            if a.seeds:
                # detection margin: how many of the given batch seeds catch the change
                cprop = prop
                cb = meta.get("caught_by", "")
                if cb and not cb.startswith("NOT CAUGHT") and prop not in cb.split(" quick")[0]:
                    cprop = cb.split(" quick")[0].split()[-1]
                res, err = run_in_worktree(patch, [cprop], [int(x) for x in a.seeds.split(",")])
                if res is None:
                    print("margin %s: NOT EVALUATED (%s)" % (meta["id"], err)); continue
                n = sum(1 for _, rc, keys in res if rc == 1 and keys)
                h = sum(1 for _, rc, keys in res if rc == 2)
                print("margin %s (%s): caught by %d of %d seeds%s" % (meta["id"], cprop, n, len(res), " HARNESS-ERRORS=%d" % h if h else ""), flush=True)
                continue
            res, err = run_in_worktree(patch, [prop])
            if res is None:
                print("seeded %s: NOT EVALUATED (%s)" % (meta["id"], err)); bad += 1; continue
            _, rc, keys = res[0]
            ok = rc == 1 and keys
            if meta.get("caught_by", "").startswith("NOT CAUGHT"):
                # documented limit: flag only a surprise (harness error)
                print("seeded %s: documented miss, exit %d %s" % (meta["id"], rc, " ".join(keys)))
                bad += 1 if rc == 2 else 0
                continue
            if not ok and prop not in meta.get("caught_by", "").split(" quick")[0]:
                # the change is caught by another property's check (see meta.json)
                other = meta["caught_by"].split(" quick")[0].split()[-1]
                res2, _ = run_in_worktree(patch, [other])
                _, rc2, keys2 = res2[0]
                ok = rc2 == 1 and keys2
                print("seeded %s: %s by %s %s" % (meta["id"], "caught" if ok else "MISSED", other, " ".join(keys2)))
                bad += 0 if ok else 1
                continue
            print("seeded %s: %s %s" % (meta["id"], "caught" if ok else "MISSED (exit %d)" % rc, " ".join(keys)))
            bad += 0 if ok else 1
    if a.only in ("", "benign"):
        for d in sorted(glob.glob(os.path.join(VERIF, "benign", "*"))):
            meta = json.load(open(os.path.join(d, "meta.json")))
            if sel and meta["property"] not in sel:
                continue
            props = meta["checks_run"].split("<patch>")[-1].split()
            bpatch = os.path.join(d, "patch_rebased.diff")
            if not os.path.exists(bpatch):
                bpatch = os.path.join(d, "patch.diff")
            res, err = run_in_worktree(bpatch, props)
            if res is None:
                print("benign %s: NOT EVALUATED (%s)" % (meta["id"], err)); bad += 1; continue
            alarms = [(p, rc, k) for p, rc, k in res if rc != 0]
            print("benign %s: %s" % (meta["id"], "no alarm" if not alarms else "ALARM %s" % alarms))
            bad += 1 if alarms else 0
    subprocess.run(["rm", "-rf", BUILD])
    print("selftest:", "all as expected" if bad == 0 else "%d unexpected results" % bad)
    sys.exit(1 if bad else 0)


main()
