#!/usr/bin/env python3
"""Runs a single seed index of a property's world and prints its trace.
  one.py <prop> <index> [--seed S] [--gomaxprocs N] [--knob k=v ...]"""
import argparse, json, os, subprocess, sys
sys.path.insert(0, os.path.dirname(os.path.abspath(__file__)))
import check
from props import PROPS
ap = argparse.ArgumentParser(); ap.add_argument("prop"); ap.add_argument("index", type=int); ap.add_argument("--seed", type=int, default=20261001)
ap.add_argument("--gomaxprocs", default=""); ap.add_argument("--knob", action="append", default=[]); ap.add_argument("--part", type=int, default=0); ap.add_argument("--nobuild", action="store_true")
a = ap.parse_args()
part = PROPS[a.prop]["parts"][a.part]
binary = os.path.join(check.BUILD, "bin", part["pkg"] + ".test") if a.nobuild else check.build_world(part["pkg"])[0]
knobs = dict(part["quick"].get("knobs", {}))
for kv in a.knob:
    k, v = kv.split("="); knobs[k] = int(v)
out = os.path.join(check.BUILD, "one_out_%d.json" % os.getpid())
args = {"prop": a.prop, "world": part["world"], "mode": "one", "seed": a.seed, "start": a.index, "out": out, "knobs": knobs, "extra": dict(part["quick"].get("extra", {}))}
env = dict(check.ENV); env["VERIF_WORLD_ARGS"] = json.dumps(args)
if a.gomaxprocs: env["GOMAXPROCS"] = a.gomaxprocs
p = subprocess.run([binary, "-test.run", "^TestSim$", "-test.timeout", "0"], env=env, capture_output=True, text=True)
if p.returncode != 0: print(p.stdout[-3000:], p.stderr[-3000:])
r = json.load(open(out)); os.remove(out)
for l in r["trace"]: print(l)
print(json.dumps({k: v for k, v in r.items() if k != "trace"}, ensure_ascii=False, indent=1)[:3000])
