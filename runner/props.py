# Per-property check configuration: which worlds, how many runs per tier, what
# the evidence says about real/stub components.

QUEUE_REAL = ["internal/target/queue (Queue, TimeWheel; yield-instrumented via overlay)", "framework/buffer (FileBuffer on simfs, MemoryBuffer)",
              "internal/dsn", "framework/exterrors", "go-message textproto", "testing/synctest fake clock (production retry constants)"]
QUEUE_STUB = ["downstream delivery target (ScriptedTarget following a drawn fault plan)", "bounce pipeline (ScriptedTarget)",
              "file system (simfs: in-memory, numbered mutating operations, crash models P/S)", "message producers (tasks calling the module.Delivery API)"]
COMMON_ASSUME = [
    "simulation samples schedules and fault sequences; a clean batch is evidence, not proof",
    "goroutine interleaving is controlled at the inserted yield points and at simulated-resource operations; code between two points runs atomically",
    "go1.26.8 testing/synctest fake clock; the shipped binary is built with the repository's default toolchain",
]

PROPS = {
    "C01": {
        "level": "exploration",
        "rule": "one run = one drawn scenario (1-3 messages x 1-4 distinct recipients, max_tries 1-4, retry 0/1s/15min, scale, parallelism, atomic or per-recipient downstream, bounce on/off, null sender) with a drawn per-attempt fault plan (stage x recipient x {ok,temp,perm,unclassified}); non-trivial = at least one fault fired or one preemption taken; distinct = distinct (scenario shape, schedule hash, event-log hash)",
        "real": QUEUE_REAL, "stub": QUEUE_STUB, "assumptions": COMMON_ASSUME,
        "parts": [
            {"pkg": "qa", "world": "qa",
             "quick": {"runs": 6000, "max_wall_s": 120, "minimise_s": 20},
             "thorough": {"runs": 400000, "max_wall_s": 1500, "minimise_s": 60}},
        ],
    },
    "C02": {
        "level": "fault_enumeration",
        "rule": "per drawn scenario (1-3 messages, 1-3 recipients, scripted temp/perm failures, aborts, concurrent accept+retry) the crash-free run numbers the N mutating file-system operations; then one run per crash point k in 1..N for process-stop and power-loss models, torn variants for writes, partial-tail variants, and depth-2 points inside recovery (sampled in quick, all k2<=40 in thorough); distinct = distinct (scenario shape, schedule hash, event-log hash) among runs in which a crash or fault fired",
        "real": QUEUE_REAL, "stub": QUEUE_STUB, "assumptions": COMMON_ASSUME + [
            "power-loss model S: namespace operations durable and ordered, file data durable up to the last successful fsync (directory fsync not required because the code issues none)"],
        "parts": [
            {"pkg": "qa", "world": "qa",
             "quick": {"runs": 96, "max_wall_s": 120, "minimise_s": 20, "extra": {"expand": "crash"}, "knobs": {"depth2": 1}},
             "thorough": {"runs": 3200, "max_wall_s": 1500, "minimise_s": 60, "extra": {"expand": "crash"}, "knobs": {"depth2": -1}}},
        ],
    },
    "C10": {
        "level": "exploration",
        "rule": "one run = drawn messages (raw header bytes with folding/repeats/8-bit/long/empty values parsed like the endpoint does; bodies empty/binary/dot-lines/>32KiB) x envelope options x fault plan forcing retries, optionally one crash+restart at a drawn file-system operation; at every downstream Body call header, body and envelope are compared with what was accepted; non-trivial = a fault or crash fired",
        "real": QUEUE_REAL, "stub": QUEUE_STUB, "assumptions": COMMON_ASSUME,
        "parts": [
            {"pkg": "qa", "world": "qa",
             "quick": {"runs": 4000, "max_wall_s": 120, "minimise_s": 20, "knobs": {"rand_crash": 1}},
             "thorough": {"runs": 300000, "max_wall_s": 1500, "minimise_s": 60, "knobs": {"rand_crash": 1}}},
        ],
    },
    "C12": {
        "level": "exploration",
        "rule": "one run = 1-3 producers (concurrent or sequential), retries from scripted temporary failures, one Close at a drawn point, then restart; schedule drawn with preemption bound 0-3 or random walk over the yield points inserted before every channel/mutex/atomic/WaitGroup/go operation of timewheel.go and queue.go, plus 'timer fires first' choices; non-trivial = at least one preemption or fault; distinct = distinct schedule hashes x scenario",
        "real": QUEUE_REAL, "stub": QUEUE_STUB, "assumptions": COMMON_ASSUME,
        "parts": [
            {"pkg": "qa", "world": "qa",
             "quick": {"runs": 12000, "max_wall_s": 120, "minimise_s": 20},
             "thorough": {"runs": 1000000, "max_wall_s": 1500, "minimise_s": 60}},
        ],
    },
    "C18": {
        "level": "exploration",
        "rule": "one run = drawn scenario with dense failures so that reports are generated; the bounce target itself fails at drawn stages; each report handed to the bounce target is parsed with the standard library (mime/multipart, net/textproto) and compared with the failed recipients of the attempt it follows; non-trivial = at least one fault fired",
        "real": QUEUE_REAL, "stub": QUEUE_STUB, "assumptions": COMMON_ASSUME,
        "parts": [
            {"pkg": "qa", "world": "qa",
             "quick": {"runs": 5000, "max_wall_s": 120, "minimise_s": 20},
             "thorough": {"runs": 300000, "max_wall_s": 1500, "minimise_s": 60}},
        ],
    },
}
