# Per-property check configuration: which worlds, how many runs per tier, what
# the evidence says about real/stub components.

QUEUE_REAL = ["internal/target/queue (Queue, TimeWheel; yield-instrumented via overlay)", "framework/buffer (FileBuffer on simfs, MemoryBuffer)",
              "internal/dsn", "framework/exterrors", "go-message textproto", "testing/synctest fake clock (production retry constants)"]
QUEUE_STUB = ["downstream delivery target (ScriptedTarget following a drawn fault plan)", "bounce pipeline (ScriptedTarget)",
              "file system (simfs: in-memory, numbered mutating operations, crash models P/S)", "message producers (tasks calling the module.Delivery API)"]
COMMON_ASSUME = [
    "simulation samples schedules and fault sequences; a clean batch is evidence, not proof",
    "goroutine interleaving is controlled at the inserted yield points and at simulated-resource operations; code between two points runs atomically",
    "go1.26.8 testing/synctest fake clock; the shipped binary is built with the repository's default toolchain",
]

PROPS = {
    "C01": {
        "level": "exploration",
        "rule": "one run = one drawn scenario (1-3 messages x 1-4 distinct recipients, max_tries 1-4, retry 0/1s/15min, scale, parallelism, atomic or per-recipient downstream, bounce on/off, null sender) with a drawn per-attempt fault plan (stage x recipient x {ok,temp,perm,unclassified}); non-trivial = at least one fault fired or one preemption taken; distinct = distinct (scenario shape, schedule hash, event-log hash)",
        "real": QUEUE_REAL, "stub": QUEUE_STUB, "assumptions": COMMON_ASSUME,
        "parts": [
            {"pkg": "qa", "world": "qa",
             "quick": {"runs": 6000, "max_wall_s": 120, "minimise_s": 20},
             "thorough": {"runs": 400000, "max_wall_s": 1500, "minimise_s": 60}},
            # Q-B: the real SMTP/LMTP forwarding target against a scripted misbehaving server
            {"pkg": "qa", "world": "qb", "seed_salt": 0xb,
             "quick": {"runs": 3000, "max_wall_s": 120, "minimise_s": 20},
             "thorough": {"runs": 200000, "max_wall_s": 1500, "minimise_s": 60}},
        ],
    },
    "C02": {
        "level": "fault_enumeration",
        "rule": "per drawn scenario (1-3 messages, 1-3 recipients, scripted temp/perm failures, aborts, concurrent accept+retry) the crash-free run numbers the N mutating file-system operations; then one run per crash point k in 1..N for process-stop and power-loss models, torn variants for writes, partial-tail variants, and depth-2 points inside recovery (sampled in quick, all k2<=40 in thorough); distinct = distinct (scenario shape, schedule hash, event-log hash) among runs in which a crash or fault fired",
        "real": QUEUE_REAL, "stub": QUEUE_STUB, "assumptions": COMMON_ASSUME + [
            "power-loss model S: namespace operations durable and ordered, file data durable up to the last successful fsync (directory fsync not required because the code issues none)"],
        "parts": [
            {"pkg": "qa", "world": "qa",
             "quick": {"runs": 96, "max_wall_s": 120, "minimise_s": 20, "extra": {"expand": "crash"}, "knobs": {"depth2": 1}},
             "thorough": {"runs": 3200, "max_wall_s": 1500, "minimise_s": 60, "extra": {"expand": "crash"}, "knobs": {"depth2": -1}}},
            # second part: many scenarios x drawn schedules (preemption bound 0-3) with one crash at a drawn point
            {"pkg": "qa", "world": "qa", "seed_salt": 0x5ca1ab1e,
             "quick": {"runs": 8000, "max_wall_s": 120, "minimise_s": 20, "knobs": {"rand_crash": 1}},
             "thorough": {"runs": 600000, "max_wall_s": 1500, "minimise_s": 60, "knobs": {"rand_crash": 1}}},
        ],
    },
    "C10": {
        "level": "exploration",
        "rule": "one run = drawn messages (raw header bytes with folding/repeats/8-bit/long/empty values parsed like the endpoint does; bodies empty/binary/dot-lines/>32KiB) x envelope options x fault plan forcing retries, optionally one crash+restart at a drawn file-system operation; at every downstream Body call header, body and envelope are compared with what was accepted; non-trivial = a fault or crash fired",
        "real": QUEUE_REAL, "stub": QUEUE_STUB, "assumptions": COMMON_ASSUME,
        "parts": [
            {"pkg": "qa", "world": "qa",
             "quick": {"runs": 4000, "max_wall_s": 120, "minimise_s": 20, "knobs": {"rand_crash": 1}},
             "thorough": {"runs": 300000, "max_wall_s": 1500, "minimise_s": 60, "knobs": {"rand_crash": 1}}},
        ],
    },
    "C12": {
        "level": "exploration",
        "rule": "one run = 1-3 producers (concurrent or sequential), retries from scripted temporary failures, one Close at a drawn point, then restart; schedule drawn with preemption bound 0-3 or random walk over the yield points inserted before every channel/mutex/atomic/WaitGroup/go operation of timewheel.go and queue.go, plus 'timer fires first' choices; non-trivial = at least one preemption or fault; distinct = distinct schedule hashes x scenario",
        "real": QUEUE_REAL, "stub": QUEUE_STUB, "assumptions": COMMON_ASSUME,
        "parts": [
            {"pkg": "qa", "world": "qa",
             "quick": {"runs": 12000, "max_wall_s": 120, "minimise_s": 20},
             "thorough": {"runs": 1000000, "max_wall_s": 1500, "minimise_s": 60}},
        ],
    },
    "C18": {
        "level": "exploration",
        "rule": "one run = drawn scenario with dense failures so that reports are generated; the bounce target itself fails at drawn stages; each report handed to the bounce target is parsed with the standard library (mime/multipart, net/textproto) and compared with the failed recipients of the attempt it follows; non-trivial = at least one fault fired",
        "real": QUEUE_REAL, "stub": QUEUE_STUB, "assumptions": COMMON_ASSUME,
        "parts": [
            {"pkg": "qa", "world": "qa",
             "quick": {"runs": 5000, "max_wall_s": 120, "minimise_s": 20},
             "thorough": {"runs": 300000, "max_wall_s": 1500, "minimise_s": 60}},
        ],
    },
    "C19": {
        "level": "exploration",
        "rule": "one run = 1-8 workers x 1-4 rounds of get/use/return (or close / mark unusable) on 1-3 keys with MaxKeys, MaxConnsPerKey, idle lifetime and stale-key lifetime drawn so that the bounds are hit, sleeps across the lifetimes on the fake clock, the pool's own one-minute clean-up ticker, and one Close (concurrent, delayed or final); schedule drawn with preemption bound 0-3 or random walk over yield points before every lock/channel/go operation of pool.go; non-trivial = a pooled connection was reused or a preemption taken",
        "real": ["internal/smtpconn/pool (yield-instrumented, deterministic map iteration via overlay)", "testing/synctest fake clock"],
        "stub": ["connection objects (record owner, close count, last use)", "connection factory (may fail by injection)"],
        "assumptions": COMMON_ASSUME,
        "parts": [
            {"pkg": "po", "world": "po",
             "quick": {"runs": 20000, "max_wall_s": 120, "minimise_s": 20},
             "thorough": {"runs": 2000000, "max_wall_s": 1500, "minimise_s": 60}},
        ],
    },
    "C11": {
        "level": "exploration",
        "rule": "LM part: one run = a limits configuration built by the real Init (concurrency 1-3 and/or rate per scope all/ip/source/destination) and 1-64 delivery tasks taking message and destination permits, holding them 0-6 s (beyond the 5 s wait time-out) and releasing; 1 in 24 runs additionally floods a keyed scope with 20013 distinct keys (beyond the bucket-table capacity); schedule: preemption bound 0-3 or random walk over the yield points of limits.go and limiters/*.go with tape-controlled select; invariant at every take: holders per scope key <= N; after quiescence exactly N permits are acquirable; non-trivial = preemption taken, a waiter waited or timed out, or the flood ran",
        "real": ["internal/limits (Group.Init from config nodes, TakeMsg/TakeDest/Release*)", "internal/limits/limiters (BucketSet, Semaphore, Rate, MultiLimit) - yield-instrumented", "testing/synctest fake clock (5 s time-outs, rate refill)"],
        "stub": ["deliveries are tasks calling the limits API directly (endpoint and remote target paths are covered by the EP/RM parts when built)"],
        "assumptions": COMMON_ASSUME,
        "parts": [
            {"pkg": "lm", "world": "lm",
             "quick": {"runs": 6000, "max_wall_s": 150, "minimise_s": 20},
             "thorough": {"runs": 600000, "max_wall_s": 1500, "minimise_s": 60}},
            # the real remote target with 'destination concurrency N': message histories ending at every stage
            {"pkg": "rm", "world": "rm", "seed_salt": 0x11,
             "quick": {"runs": 2500, "max_wall_s": 120, "minimise_s": 20},
             "thorough": {"runs": 200000, "max_wall_s": 1500, "minimise_s": 60}},
        ],
    },
    "C03": {
        "level": "exploration",
        "rule": "one run = an endpoint (smtp or lmtp, deferred or immediate sender reject, optional 'all concurrency N' limit) with a real pipeline built from config nodes (single target, or per-domain destinations with 1-2 targets and a rejecting default), 0-2 scripted global checks, optional scripted modifier, fault plans on every target stage (Start/AddRcpt/Body/BodyNonAtomic/Commit/Abort), check verdicts and modifier stages; 1-2 scripted clients run 1-3 transactions each (valid/invalid senders, SMTPUTF8, 1-4 recipients incl. unknown domains, endings DATA / RSET / disconnect / disconnect mid-DATA / QUIT / NOOP / nested MAIL); non-trivial = a fault fired, a client disconnected or a preemption was taken",
        "real": ["internal/endpoint/smtp (Session, Endpoint.Init/setConfig)", "go-smtp server (foxcpp fork) on a simulated listener", "internal/msgpipeline (config parser, routing, check runner, deliveries)", "internal/limits", "framework/buffer (RAM)", "testing/synctest fake clock"],
        "stub": ["delivery targets, checks, modifier (scripted actors registered as module instances)", "SMTP clients (scripted)", "network (simnet)", "DNS (empty mockdns zone)"],
        "assumptions": COMMON_ASSUME,
        "parts": [
            {"pkg": "ep", "world": "ep",
             "quick": {"runs": 3000, "max_wall_s": 150, "minimise_s": 20},
             "thorough": {"runs": 300000, "max_wall_s": 1500, "minimise_s": 60}},
        ],
    },
    "C06": {
        "level": "exploration",
        "rule": "one run = real endpoint (smtp or lmtp, deferred or immediate sender reject) with a real pipeline config placing scripted checks G (global), S (source), D1/D2 (destination blocks) and X (one instance referenced globally and/or inside a destination block); per transaction a verdict (none, ignore, quarantine, reject, temp-reject) is drawn for every check and stage; 1-2 transactions with 1-3 recipients routed to different blocks; the completion order of the parallel check goroutines is chosen by the scheduler (random walk or preemption bound 0-3); a reference model computes the required accept/reject/quarantine outcome from the verdicts alone; non-trivial = at least one non-none verdict was returned",
        "real": ["internal/msgpipeline (config parser, check_runner with its goroutines - yield-instrumented, routing)", "internal/endpoint/smtp + go-smtp server (SMTP and LMTP paths)", "testing/synctest fake clock"],
        "stub": ["checks (ScriptedCheck module instances)", "targets (fault-free ScriptedTargets)", "SMTP client", "network (simnet)"],
        "assumptions": COMMON_ASSUME + ["DMARC policy quarantine and the remote target's refusal of quarantined messages are not exercised in this world"],
        "parts": [
            {"pkg": "ep", "world": "ep06",
             "quick": {"runs": 4000, "max_wall_s": 150, "minimise_s": 20},
             "thorough": {"runs": 400000, "max_wall_s": 1500, "minimise_s": 60}},
        ],
    },
    "C16": {
        "level": "exploration",
        "rule": "dynamic half only: error values nested to depth 4 from the repository's primitives (SMTP-annotated errors incl. multi-line, non-ASCII and U+0080 texts, temporary markers, field wrappers, %w wrappers, network errors, plain errors carrying a secret marker) are injected at every target/check/modifier stage behind the real endpoint (part 1) and at every downstream stage under the real queue (part 2); every reply line read by the scripted clients and every per-recipient group of every failure report is checked for class coherence (basic vs enhanced vs injected class vs retry behaviour), ASCII-only replies without SMTPUTF8, and absence of the secret marker; non-trivial = at least one fault fired",
        "real": ["internal/endpoint/smtp (wrapErr and reply paths)", "go-smtp server", "internal/msgpipeline", "internal/target/queue (toSMTPErr, retry decision, emitDSN)", "internal/dsn", "framework/exterrors"],
        "stub": ["targets/checks/modifiers (scripted, producing the error values)", "SMTP clients", "bounce target"],
        "assumptions": COMMON_ASSUME + ["only self-consistent error values are injected (Temporary() markers and SMTP code classes along one Unwrap chain agree)", "the static half of the statement (all SMTP error literals in the source tree) is not decided by simulation"],
        "parts": [
            {"pkg": "ep", "world": "ep",
             "quick": {"runs": 3000, "max_wall_s": 150, "minimise_s": 20},
             "thorough": {"runs": 300000, "max_wall_s": 1500, "minimise_s": 60}},
            {"pkg": "qa", "world": "qa", "seed_salt": 0x16,
             "quick": {"runs": 4000, "max_wall_s": 120, "minimise_s": 20},
             "thorough": {"runs": 300000, "max_wall_s": 1500, "minimise_s": 60}},
            # helper-computed codes at their real call sites: errors the remote target produces from network/DNS faults
            {"pkg": "rm", "world": "rm", "seed_salt": 0x161,
             "quick": {"runs": 2000, "max_wall_s": 120, "minimise_s": 20},
             "thorough": {"runs": 200000, "max_wall_s": 1500, "minimise_s": 60}},
        ],
    },
    "C14": {
        "level": "exploration",
        "rule": "one run = a history of 3-12 operations {create (bcrypt cost 4 / argon2), set-password, delete, AUTH PLAIN and AUTH LOGIN with the same credentials, AUTH PLAIN with an authorization identity, MAIL without authentication} over user names with case / width / NFC-NFD variants and passwords (empty, 71 and 80 bytes, non-ASCII, combining marks), auth_map in {none, identity, static alice->bob->carol, regexp}; credential-table lookup failures injected; every attempt is a real SMTP session against the submission endpoint followed by a message so that the recorded identity is observed at the target; half of the runs add a concurrent phase (one administrator, 1-2 clients) whose history, stamped with controller step numbers, is checked with porcupine against a per-account register",
        "real": ["internal/endpoint/smtp (submission) + go-smtp server + go-sasl PLAIN", "internal/auth (SASLAuth, auth_map handling)", "internal/auth/sasllogin", "internal/auth/pass_table (bcrypt, argon2)", "internal/table (identity, static, regexp)", "internal/authz normalisation"],
        "stub": ["credential storage (StubTable, module.MutableTable)", "delivery target", "SMTP clients", "network (simnet)"],
        "assumptions": COMMON_ASSUME + ["the reference uses golang.org/x/text/secure/precis UsernameCaseMapped as the specified normal form of user names", "administration is performed by one task (the statement quantifies over histories, not concurrent administration)"],
        "parts": [
            {"pkg": "au", "world": "au",
             "quick": {"runs": 1600, "max_wall_s": 150, "minimise_s": 20},
             "thorough": {"runs": 120000, "max_wall_s": 1500, "minimise_s": 60}},
        ],
    },
    "C09": {
        "level": "exploration",
        "rule": "one run = the real queue over the real target.smtp / target.lmtp (smtp_downstream + smtpconn + go-smtp client) against a scripted server (SMTPUTF8 on/off, per-stage temporary/permanent replies, lost final reply, LMTP connection drop between statuses, refused connection), 1-2 messages x 1-3 recipients (ASCII, IDN U-label and A-label, non-ASCII local part, mixed case), up to 3 attempts; a monitor between queue and target checks every BodyNonAtomic call: exactly one SetStatus per accepted recipient under the AddRcpt spelling, none foreign, none late; non-trivial = a fault fired",
        "real": ["internal/target/smtp (target.smtp, target.lmtp)", "internal/smtpconn", "go-smtp client", "internal/target/queue (as the caller)"],
        "stub": ["next-hop server (ScriptedMX over simnet)", "disk (simfs)", "bounce target"],
        "assumptions": COMMON_ASSUME + ["the remote target (connection reuse histories) and the pipeline's rewritten-recipient clause are covered only where the RM/pipeline parts are listed in this entry"],
        "parts": [
            {"pkg": "qa", "world": "qb", "seed_salt": 0x9,
             "quick": {"runs": 4000, "max_wall_s": 120, "minimise_s": 20},
             "thorough": {"runs": 300000, "max_wall_s": 1500, "minimise_s": 60}},
            # the real remote target: histories of 1-3 transactions sharing the connection cache
            {"pkg": "rm", "world": "rm", "seed_salt": 0x99,
             "quick": {"runs": 2500, "max_wall_s": 120, "minimise_s": 20},
             "thorough": {"runs": 200000, "max_wall_s": 1500, "minimise_s": 60}},
        ],
    },
    "C05": {
        "level": "exploration",
        "rule": "one run = a target.remote instance configured through its own Init (mx_auth with mtasts and/or local_policy{min_tls_level, min_mx_level}, requiretls_override, relaxed_requiretls, optional destination limit), 1-2 scripted MX servers (STARTTLS offered / stripped / handshake failing, certificate valid / self-signed / wrong name / expired, REQUIRETLS offered or not, per-stage reply faults), MTA-STS policy none / testing / enforce / fetch error with MX patterns matching one, all or no candidate, optional temporary MX lookup failure, and a history of 1-3 messages (REQUIRETLS, TLS-Required: No, quarantined) with idle gaps below and above the connection-cache lifetime; every message a server received content for is judged from the server's side against the requirements in force for that message; non-trivial = a fault fired, or the history has more than one message, or a cached connection carried a second transaction",
        "real": ["internal/target/remote (Target.Init, PolicyGroup.Init, mtasts and local_policy, connect/attemptMX/connectionForDomain)", "internal/smtpconn + go-smtp client", "internal/smtpconn/pool", "internal/limits", "crypto/tls with generated ed25519 certificates", "testing/synctest fake clock (pool lifetimes, command time-outs)"],
        "stub": ["MX servers (ScriptedMX)", "resolver (mockdns zone; the DNSSEC-aware resolver is switched off)", "MTA-STS policy fetch (scripted, replaces the HTTPS fetch and cache)", "network (simnet)"],
        "assumptions": COMMON_ASSUME + ["DANE and DNSSEC policies are not exercised: the DNSSEC-aware resolver has no seam in this build, so the dane/dnssec dimensions of the quantifier are not covered"],
        "parts": [
            {"pkg": "rm", "world": "rm",
             "quick": {"runs": 2500, "max_wall_s": 150, "minimise_s": 20},
             "thorough": {"runs": 200000, "max_wall_s": 1500, "minimise_s": 60}},
        ],
    },
}

# ---------------------------------------------------------------- manifest metadata

META = {
    "C01": {"technique": "deterministic simulation: seeded fault plans over the real queue on a fake clock, conservation oracle over the recorded history",
            "design_ref": "DESIGN.md section 6 (C01)",
            "level_text": "Seeded exploration of fault sequences: thousands of drawn scenarios per run against the real queue with production retry timing; a reference life-cycle model decides, per recipient, exactly-one terminal outcome and the retry discipline. Sampling, not proof.",
            "level_note": "Downstream and bounce targets are scripted stubs; disk is simulated; schedules are controlled at inserted yield points. Holds for what was sampled."},
    "C02": {"technique": "deterministic simulation with crash-point enumeration on a simulated disk (process-stop and power-loss models, torn writes, depth 2)",
            "design_ref": "DESIGN.md section 6 (C02)",
            "level_text": "For each sampled scenario every crash point (before each mutating file-system call, torn writes, un-synced data dropped) is enumerated and the queue restarted on the surviving state in the same simulation; depth-2 points inside recovery sampled (quick) or enumerated up to 40 (thorough).",
            "level_note": "Crash granularity is the file-system call (complete for durable state); power-loss model does not require directory fsync; scenarios are sampled."},
    "C10": {"technique": "deterministic simulation: generated headers/bodies/envelopes through spool, retries and crash-restarts, byte-equality oracle at the downstream boundary, write-time credential scan on the simulated disk",
            "design_ref": "DESIGN.md section 6 (C10)",
            "level_text": "Seeded exploration over message shapes and retry/restart histories; every byte range written to the simulated disk is scanned for the credential marker.",
            "level_note": "Inputs are generated, not enumerated; header comparison is on the serialised form the queue was handed."},
    "C12": {"technique": "deterministic simulation: seeded, preemption-bounded scheduling of AST-inserted yield points in timewheel.go/queue.go with tape-controlled select and timer-first choices",
            "design_ref": "DESIGN.md section 6 (C12)",
            "level_text": "Controlled-interleaving exploration (delay bound 0-3 and random walks) of producers, in-flight attempts, timer expiry and one shutdown, followed by a restart; oracles: no panic, no hang, no .meta_broken, exactly-once dispatch, nothing lost over shutdown.",
            "level_note": "Code between two yield points is treated as atomic; yield points cover channel, mutex, atomic, WaitGroup and go statements of the two files."},
    "C18": {"technique": "deterministic simulation: dense failure plans incl. failing bounce target; reports parsed by an independent stdlib parser and compared with the attempt they follow",
            "design_ref": "DESIGN.md section 6 (C18)",
            "level_text": "Seeded exploration; the oracle recomputes which recipients must/may be listed from the observed transactions and the documented life cycle.",
            "level_note": "The bounce pipeline is a scripted target; report well-formedness is judged by Go's mime/multipart and net/textproto."},
    "C19": {"technique": "deterministic simulation: seeded, preemption-bounded scheduling of AST-inserted yield points in pool.go, fake-clock expiry, ownership/close-count monitor on connection objects",
            "design_ref": "DESIGN.md section 6 (C19)",
            "level_text": "Controlled-interleaving exploration of concurrent get/return/clean-up/shutdown with the real pool; every connection object monitors owner, close count and hand-out time.",
            "level_note": "Connections are stubs; code between yield points is atomic; idle-lifetime checks allow one second of slack for the pool's unix-second arithmetic."},
    "C11": {"technique": "deterministic simulation: concurrent deliveries against the real limits.Group/limiters under controlled interleavings and fake-clock time-outs; holder-count invariant and post-quiescence capacity probe",
            "design_ref": "DESIGN.md section 6 (C11)",
            "level_text": "Controlled-interleaving exploration with the limits group built by its own Init; invariant checked at every acquisition, capacity probed after quiescence, key populations beyond the bucket-table capacity included.",
            "level_note": "Deliveries are tasks calling the limits API; endings at each SMTP stage are represented by which permits a task takes and when it releases."},
    "C03": {"technique": "deterministic simulation: scripted SMTP/LMTP clients against the real endpoint+pipeline over a simulated network, fault plans on targets/checks/modifiers, typestate monitor on every delivery and reply/commit agreement oracle",
            "design_ref": "DESIGN.md section 6 (C03)",
            "level_text": "Seeded exploration of command sequences and fault plans; every delivery object is typestate-monitored, replies are matched with what the targets committed, permits probed after the sessions.",
            "level_note": "Targets/checks/modifiers are scripted; BDAT and AUTH sequences are not generated in this world (AUTH is covered by C14's world)."},
    "C06": {"technique": "deterministic simulation: scripted checks in global/source/destination scopes behind the real endpoint+pipeline, scheduler-chosen completion order of the check goroutines, verdict reference model as oracle",
            "design_ref": "DESIGN.md section 6 (C06)",
            "level_text": "Seeded exploration over check placements, verdict assignments, SMTP/LMTP and completion orders; the outcome is compared with an order-independent reference model, call counts per stage are checked against the documented once-per-message rule.",
            "level_note": "Fixed configuration family; DMARC and the remote target's quarantine refusal are outside this world."},
    "C16": {"technique": "deterministic simulation: generated nested error values injected at every stage behind the real endpoint and under the real queue; coherence oracle on every reply line and every failure-report entry",
            "design_ref": "DESIGN.md section 6 (C16)",
            "level_text": "Seeded exploration of error values x stages; dynamic half of the statement only (reply conversion of endpoint and queue). The 'all literals in the source tree' half is a static property and is not claimed.",
            "level_note": "Only self-consistent error values are generated; helper-computed codes are reached where a world contains their call sites."},
    "C14": {"technique": "deterministic simulation: account histories and real SMTP AUTH sessions against the submission endpoint, reference map as oracle, porcupine linearizability check of concurrent administration/authentication histories",
            "design_ref": "DESIGN.md section 6 (C14)",
            "level_text": "Seeded exploration of account histories with a map-based reference model; PLAIN and LOGIN are compared on identical credentials including the identity recorded for the session; concurrent histories are checked for linearizability (Unknown results are counted, never reported).",
            "level_note": "Credential storage is a stub table; bcrypt cost 10 of SetUserPassword bounds the number of histories per minute."},
    "C09": {"technique": "deterministic simulation: real forwarding targets against a scripted misbehaving next hop over a simulated network, status-collector contract monitor at the target boundary",
            "design_ref": "DESIGN.md section 6 (C09)",
            "level_text": "Seeded exploration of recipient spellings x server capabilities x per-stage failures; the monitor checks the per-recipient result contract on every call.",
            "level_note": "Next hop is scripted; see the evidence for which target kinds a run covered."},
    "C05": {"technique": "deterministic simulation: message histories through the real remote target against scripted MX servers with real TLS over a simulated network; server-side requirement evaluator as oracle",
            "design_ref": "DESIGN.md section 6 (C05)",
            "level_text": "Seeded exploration of policy configurations x per-MX facts x message flags x histories sharing the connection cache; the oracle is an independent evaluator of the documented requirements applied to what the server actually received and over which TLS state.",
            "level_note": "MTA-STS, local_policy, REQUIRETLS, TLS-Required override, quarantine and connection reuse are covered; DANE/DNSSEC are not (no resolver seam built)."},
}

NOT_APPLICABLE = [
    {"property_id": "C04", "reason": "routing is a pure function of (parsed configuration, envelope): no schedule, clock, fault or crash in the statement; deciding it is input generation against a reference router, not simulation"},
    {"property_id": "C07", "reason": "DMARC verdict/action is a pure function of (From header, SPF/DKIM results, policy record, lookup outcome); the only asynchronous element is a single buffered hand-off without interleaving that changes the result"},
    {"property_id": "C13", "reason": "DANE verification is a pure function of (TLSA RRset, TLS connection state); TLSA discovery under DNS faults is exercised as part of C05"},
    {"property_id": "C15", "reason": "sender authorisation is a pure function of (tables, normalisers, authenticated user, MAIL FROM, header); nothing depends on time, order or faults"},
    {"property_id": "C17", "reason": "pure string functions; no stream, timer, shared state or fault path"},
    {"property_id": "C20", "reason": "pure parser over a byte string; the quantifier is over inputs only"},
]
