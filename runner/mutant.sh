#!/bin/sh
# mutant.sh <patch.diff> <prop> [<prop>...]: apply a seeded change to /repo, run the checks (no evidence written), revert.
patch=$1; shift
cd /repo || exit 2
if [ -n "$(git status --porcelain)" ]; then echo "repo dirty"; exit 2; fi
git apply "$patch" || { echo "patch does not apply"; exit 2; }
git diff --stat | tail -1
for p in "$@"; do
  (cd /verif && timeout 900 ./check $p --no-evidence 2>&1 | grep -E "^C[0-9]+ tier|VIOLATION|HARNESS|KNOWN|key=" | cut -c1-330 | head -8)
done
git checkout -- .
git status --porcelain | head -3
