#!/bin/sh
# verify_mutant.sh <mutant-dir> <package-dir-for-demo> : confirms in a scratch worktree that the change compiles, the
# existing suite still passes, and the demonstration fails with the change and passes without it.
md=$1; pkg=$2
export GOFLAGS=-mod=mod GOPROXY=off GOSUMDB=off
wt=/tmp/wt_verify_$$
git -C /repo worktree add --detach $wt HEAD -q || exit 2
cd $wt
cp $md/demo_test.go $pkg/zz_demo_test.go
go test -vet=off -count=1 -run 'Demo|demo|TestMut|TestC11|TestC19|Mut|C03|C06|C14|C16|C05|C09|C08' ./$pkg/ > /tmp/vm_clean.txt 2>&1; clean=$?
git apply $md/patch.diff || { echo "APPLY-FAILED"; cd /; git -C /repo worktree remove --force $wt; exit 2; }
go test -vet=off -count=1 -run 'Demo|demo|TestMut|TestC11|TestC19|Mut|C03|C06|C14|C16|C05|C09|C08' ./$pkg/ > /tmp/vm_mut.txt 2>&1; mut=$?
rm $pkg/zz_demo_test.go
go build $(go list ./... | grep -v maddy-pam-helper) > /tmp/vm_build.txt 2>&1; build=$?
go test -vet=off -count=1 $(go list ./... | grep -v maddy-pam-helper) > /tmp/vm_suite.txt 2>&1; suite=$?
echo "demo_clean_exit=$clean demo_mutated_exit=$mut build_exit=$build suite_exit=$suite"
grep -m3 -E "^(--- FAIL|FAIL|panic)" /tmp/vm_mut.txt | cut -c1-200
grep -E "^(FAIL|---)" /tmp/vm_suite.txt | head -3
cd /; git -C /repo worktree remove --force $wt
