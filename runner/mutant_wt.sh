#!/bin/sh
# mutant_wt.sh <patch.diff> <prop> [<prop>...]: like mutant.sh, but applies the seeded change in a scratch worktree of
# /repo HEAD and points the checks at it (VERIF_REPO), so /repo itself stays untouched and background runs that
# build from /repo are not disturbed. The worktree is removed afterwards.
patch=$(readlink -f "$1"); shift
wt=/tmp/mwt_$$
git -C /repo worktree add --detach $wt HEAD -q || exit 2
if ! git -C $wt apply "$patch"; then echo "patch does not apply"; git -C /repo worktree remove --force $wt; exit 2; fi
git -C $wt diff --stat | tail -1
for p in "$@"; do
  (cd /verif && VERIF_REPO=$wt timeout 1200 ./check $p --no-evidence 2>&1 | grep -E "^C[0-9]+ tier|VIOLATION|HARNESS|KNOWN|key=" | cut -c1-330 | head -${MUT_LINES:-8})
done
git -C /repo worktree remove --force $wt
