#!/bin/sh
# Builds the framework from files on disk only (offline) and warms the go1.26.8 build cache.
set -e
export GOFLAGS=-mod=mod GOPROXY=off GOSUMDB=off GOTOOLCHAIN=local
mkdir -p /verif/.build/bin
cd /verif/tools/mkoverlay && go1.26.8 build -o /verif/.build/mkoverlay .
cd /verif && python3 - <<'PY'
import sys
sys.path.insert(0, '/verif/runner'); sys.argv = ['setup']
import check
from props import PROPS
seen = set()
for p in PROPS.values():
    for part in p['parts']:
        if part['pkg'] not in seen:
            seen.add(part['pkg'])
            b, s = check.build_world(part['pkg'])
            print('built', b, '%.1fs' % s)
PY
echo setup done
